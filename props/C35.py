"""C35 -- the clang-AST import yields a consistent program model.

Every enumerated program goes through `cppcheck --clang --dump` of the ASan+UBSan build (leak check off):
  S  the C08 scope-grammar corpus (all programs with <= 3 scopes, with/without global x; C subset as C),
     300 programs per file (clang runs once per file inside cppcheck)
  E  expression functions: every expression with 1 operator over 10 leaves / 32 operators (thorough: also all
     2-operator expressions over 4 leaves / 18 operators), as C and C++; ill-typed ones are dropped after a `clang -fsyntax-only` pass,
     the accepted ones re-rendered (up to 800 per file) (analysed with --clang=<wrapper adding -w>, because any clang
     warning makes the import stop with an internal error, which exempts the whole file)
  P  one translation unit per statement / expression / declaration kind that clang's AST distinguishes and that
     needs no header (167 C++, 50 C units named after the node kind: every statement kind, throw/rethrow/try forms,
     every cast, literal, operator, C++ object expression, lambda capture kind, template form, declaration kind,
     attribute ...) plus 67 C++ / 35 C mixed-feature snippets; each unit is its own file (a crash in one must not
     hide the others), 16 files per cppcheck invocation
Oracle: (a) no crash, no sanitizer report; (b) if cppcheck reported no internal error for the file, its
dump satisfies the C14 invariants of vlib/dumpcheck.py (ids, references, links, AST); (c) every variable use the
imported model links is linked to the declaration `clang -ast-dump=json` names (vlib/nameres.judge_imported).
"""
import collections, gc, os, re, subprocess, time
from concurrent.futures import ProcessPoolExecutor
from vlib import build, run, dumpcheck, scopegen, featgen, clangref, nameres
from vlib.core import Ctx, NCPU

TEMPLATE = "--template={file}\t{id}\t{message}"
INTERNAL = ("internalError", "internalAstError", "syntaxError", "cppcheckError", "unknownMacro")
RE_SAN = re.compile(r"(AddressSanitizer|UndefinedBehaviorSanitizer|LeakSanitizer|runtime error:|SUMMARY: \w+Sanitizer)")
_WSN = [0]


def _ws(files):
    _WSN[0] += 1
    return run.WS(files, name="r%d_%d" % (os.getpid(), _WSN[0]))


def clang_ok_lines(path, lang, cwd):
    """-> set of lines with an error (plain syntax-only run)"""
    e = dict(os.environ)
    e["LC_ALL"] = "C"
    p = subprocess.run(["clang", "-fsyntax-only", "-fno-color-diagnostics", "-w", "-ferror-limit=0", "-x",
                        "c++" if lang == "cpp" else "c", path], cwd=cwd, env=e, stdout=subprocess.PIPE,
                       stderr=subprocess.PIPE, timeout=600)
    return set(int(m.group(2)) for m in clangref.RE_DIAG.finditer(p.stderr.decode("utf-8", "replace")))


def crash_signature(r):
    err = r.text_err()
    if r.timed_out:
        return "timeout"
    m = re.search(r"ERROR: AddressSanitizer: ([\w-]+)", err)
    kind = m.group(1) if m else None
    if kind is None:
        m = re.search(r"runtime error: ([a-z ]+)", err)
        kind = ("ubsan-" + m.group(1).strip().replace(" ", "-")[:40]) if m else ("signal%d" % -r.rc if r.rc < 0 else "rc%d" % r.rc)
    m = re.search(r"in (clangimport::[\w:~]+|[\w:]+::[\w~]+)", err)
    return kind + ((":" + m.group(1)) if m else "")


def analyse(job):
    """job = {family, lang, files: [(name, source, meta)], ...} -> result dict"""
    gc.disable()
    fam, lang = job["family"], job["lang"]
    files = list(job["files"])
    res = {"family": fam, "programs": 0, "nontrivial": 0, "stats": collections.Counter(), "dump_stats": {},
           "problems": [], "internal_errors": [], "rejected_by_clang": 0, "harness": None, "timeouts": []}
    with _ws({}) as ws:
        if fam == "E":
            # pass 1: drop ill-typed candidates, re-render the accepted ones
            name, exprs = files[0][0], files[0][2]["exprs"]
            src, ranges = featgen.render_expressions(exprs, tag0=files[0][2]["tag0"])
            ws.write(name, src)
            bad = clang_ok_lines(name, lang, ws.dir)
            ok = [e for (a, b, i), e in zip(ranges, exprs) if a not in bad]
            res["rejected_by_clang"] = len(exprs) - len(ok)
            if not ok:
                return res
            src, ranges = featgen.render_expressions(ok, tag0=files[0][2]["tag0"])
            files = [(name, src, {"ranges": ranges, "items": ok, "tags": None})]
        for name, src, meta in files:
            ws.write(name, src)
        names = [f[0] for f in files]
        clangopt = "--clang"
        if fam == "E":
            # any clang warning ends the merged AST stream with "N warnings generated.", which the import answers with
            # an internal error (exempt, but then nothing is judged): the expression corpus uses a wrapper adding -w
            wp = ws.write("clangw", "#!/bin/sh\nexec clang -w \"$@\"\n")
            os.chmod(wp, 0o755)
            clangopt = "--clang=" + wp
        names.sort()
        remaining = list(names)
        ierr = {}
        err = ""
        crashed_files = set()
        while remaining:
            r = run.cppcheck(["-q", clangopt, "--dump", TEMPLATE] + remaining, ws.dir, variant="asan",
                             env={"ASAN_OPTIONS": "detect_leaks=0:abort_on_error=0", "UBSAN_OPTIONS": "print_stacktrace=1"},
                             timeout=job.get("timeout", 1500))
            err = r.text_err()
            for line in err.splitlines():
                parts = line.split("\t")
                if len(parts) == 3 and parts[1] in INTERNAL:
                    ierr.setdefault(parts[0], []).append(parts[2][:160])
            if not (r.timed_out or r.rc < 0 or r.rc >= 128 or RE_SAN.search(err) is not None):
                break
            # crash / sanitizer report / hang: the first file that was neither dumped nor answered with an internal error
            unproc = [n for n in remaining if not os.path.exists(os.path.join(ws.dir, n + ".dump")) and n not in ierr]
            culprit = unproc[0] if unproc else remaining[-1]
            crashed_files.add(culprit)
            if r.timed_out and RE_SAN.search(err) is None:
                # not completing is neither a crash nor a completed analysis: recorded, not judged
                res["timeouts"].append(culprit)
            else:
                res["problems"].append({"key": "crash:" + crash_signature(r), "file": culprit,
                                        "msg": "cppcheck --clang rc=%s: %s" % (r.rc, err[-1500:]),
                                        "source": dict((f[0], f[1]) for f in files)[culprit], "program": None})
            remaining = [n for n in unproc if n != culprit]
        names = [n for n in names if n not in crashed_files]
        if "Failed to execute" in err or "Failed to execute" in r.text_out():
            res["harness"] = "clang could not be run by cppcheck: " + (err + r.text_out())[-400:]
            return res
        for name, src, meta in files:
            if name not in names:
                continue
            nprog = len(meta.get("items") or [1])
            res["programs"] += nprog
            if name in ierr:
                res["internal_errors"].append((name, ierr[name][0], nprog))
                continue
            dp = os.path.join(ws.dir, name + ".dump")
            if not os.path.exists(dp):
                res["harness"] = "no dump and no internal error for %s: %s" % (name, err[-300:])
                continue
            probs, d = dumpcheck.check_file(dp, build.REPO, res["dump_stats"], with_cppcheckdata=False)
            agg = {}
            for k, m in probs:
                agg.setdefault(k, []).append(m)
            for k, ms in agg.items():
                res["problems"].append({"key": "dump:" + k, "file": name, "msg": "%s (%d instance(s))" % (ms[0], len(ms)),
                                        "source": src, "program": None})
            if d is None or len(d.cfgs) != 1:
                continue
            root, errs, _ = clangref.run(name, lang, ws.dir)
            if root is None or errs:
                res["harness"] = "reference clang run failed for %s" % name
                continue
            ref = clangref.extract(root, src)
            del root
            st, vp = nameres.judge_imported(ref, d.cfgs[0], meta.get("tags"))
            judged = st.pop("_judged_var_lines")
            res["stats"].update(st)
            ranges = meta.get("ranges")
            if ranges:
                progs = set()
                for l in judged:
                    for a, b, i in ranges:
                        if a <= l <= b:
                            progs.add(i)
                            break
                res["nontrivial"] += len(progs)
            else:
                res["nontrivial"] += 1
            for p in vp:
                prog = None
                if ranges:
                    for a, b, i in ranges:
                        if a <= p["line"] <= b:
                            prog = meta["items"][i]
                res["problems"].append({"key": "var:" + nameres.classify(p), "file": name, "msg": p["msg"],
                                        "source": src if not ranges or fam == "E" else None, "program": prog})
    res["stats"] = dict(res["stats"])
    return res


def work(job):
    try:
        return analyse(job)
    except Exception:
        import traceback
        return {"family": job["family"], "programs": 0, "nontrivial": 0, "stats": {}, "dump_stats": {}, "problems": [],
                "internal_errors": [], "rejected_by_clang": 0, "timeouts": [],
                "harness": "harness exception: " + traceback.format_exc()[-800:]}


def jobs_for(tier):
    # P: one translation unit per statement / expression / declaration kind (featgen.KINDS_*) and the mixed-feature
    # snippets (featgen.SNIPPETS_*); every unit is its own file, 16 files per invocation (the ASan build needs seconds
    # to start; clang runs once per file anyway; after a crash the remaining files are analysed by a new invocation)
    for lang, tables, ext in (("cpp", (("k", featgen.KINDS_CPP), ("p", featgen.SNIPPETS_CPP)), ".cpp"),
                              ("c", (("k", featgen.KINDS_C), ("p", featgen.SNIPPETS_C)), ".c")):
        units = [("%s_%s%s" % (pre, n, ext), table[n], {"snippet": n}) for pre, table in tables for n in sorted(table)]
        for i in range(0, len(units), 16):
            yield {"family": "P", "lang": lang, "files": units[i:i + 16]}
    # S: scope corpus
    nmax = 3
    for lang in ("cpp", "c"):
        progs = [t for n in range(1, nmax + 1) for t in scopegen.programs(n, lang=lang)]
        if tier == "thorough":
            progs += [t for t in scopegen.programs(4, lang=lang) if scopegen.is_chain(t)]
        for gx in (0, 1):
            for i in range(0, len(progs), 300):
                chunk = progs[i:i + 300]
                src, ranges, tags = scopegen.render_batch_tagged(chunk, gx, lang, tag0=i)
                yield {"family": "S", "lang": lang, "global_x": gx,
                       "files": [("s%d_%d.%s" % (gx, i, lang), src,
                                  {"ranges": ranges, "tags": tags, "items": [scopegen.show(t) for t in chunk]})]}
    # E: expression functions
    for lang in ("cpp", "c"):
        exprs = list(featgen.expressions(1))
        if tier == "thorough":
            exprs += list(featgen.expressions(2, full=True))
        for i in range(0, len(exprs), 800):
            yield {"family": "E", "lang": lang,
                   "files": [("e%d.%s" % (i, lang), None, {"exprs": exprs[i:i + 800], "tag0": i})]}


def replay_case(a):
    name, src, lang = a["file"], a["source"], a["lang"]
    print("input %s:" % name)
    print(src if len(src) < 6000 else src[:6000] + "\n...")
    job = {"family": "P", "lang": lang, "files": [(name, src, {})]}
    res = analyse(job)
    print("expected: no crash / sanitizer report; without internal error a consistent dump whose linked variable uses "
          "agree with clang (class %s absent)" % a.get("class"))
    print("observed: internal errors %s, harness %s, judged %s" % (res["internal_errors"], res["harness"], res["stats"]))
    for p in res["problems"]:
        print("  %s: %s" % (p["key"], p["msg"][:1500]))
    if not res["problems"]:
        print("  no problems")
    return 0


def main(tier, replay=None):
    ctx = Ctx("C35", tier, "exploration", 900 if tier == "quick" else 2400, replay)
    build.build("asan")
    if replay:
        return replay_case(replay["artefact"])
    run.scratch_base()
    stats = collections.Counter()
    dstats = collections.Counter()
    fam_prog = collections.Counter()
    ierrs = collections.Counter()
    keys_seen = collections.Counter()
    it = iter(jobs_for(tier))
    window = collections.deque()
    nfiles = 0
    with ProcessPoolExecutor(max_workers=max(2, min(NCPU, 14))) as ex:
        def more():
            while len(window) < 2 * NCPU and not ctx.expired():
                try:
                    j = next(it)
                except StopIteration:
                    return
                window.append((j, ex.submit(work, j)))
        more()
        while window:
            job, fut = window.popleft()
            res = fut.result()
            more()
            fam = job["family"]
            nfiles += len(job["files"])
            if res["harness"]:
                ctx.violation("C35:harness-error", "%s %s: %s" % (fam, job["files"][0][0], res["harness"]),
                              {"family": fam, "lang": job["lang"], "file": job["files"][0][0],
                               "source": job["files"][0][1] or "", "error": res["harness"]})
            fam_prog[fam + "/" + job["lang"]] += res["programs"]
            fam_prog[fam + "/" + job["lang"] + ":rejected_by_clang"] += res["rejected_by_clang"]
            ctx.count(res["programs"])
            for k in range(res["nontrivial"]):
                ctx.distinct("%s|%s|%s|%d" % (fam, job["lang"], job["files"][0][0], k))
            stats.update(res["stats"])
            dstats.update(res["dump_stats"])
            for n in res["timeouts"]:
                ctx.bump("files_timed_out_not_judged")
            for name, msg, nprog in res["internal_errors"]:
                ierrs[re.sub(r"0x[0-9a-f]+|<[^>]*>|\d+", "#", msg)[:120]] += 1
                ctx.bump("files_with_internal_error_not_judged")
                ctx.bump("programs_in_files_with_internal_error", nprog)
            if res["programs"] and len([s for s in ctx.samples if s["family"] == fam]) < 2:
                f0 = job["files"][0]
                ctx.sample({"family": fam, "lang": job["lang"], "file": f0[0],
                            "what": (f0[2].get("items") or [f0[2].get("snippet")])[:3] if f0[2] else None,
                            "judged": res["stats"]}, maxn=8)
            for p in res["problems"]:
                key = "C35:" + p["key"]
                keys_seen[key] += 1
                src = p["source"]
                if src is None and p["program"] is not None and fam == "S":
                    src = scopegen.render_batch([scopegen.parse(p["program"])], job.get("global_x", 0), job["lang"])[0]
                if src is None:
                    src = dict((f[0], f[1]) for f in job["files"]).get(p["file"]) or ""
                ctx.violation(key, "%s [%s %s]: %s" % (p["file"], fam, p["program"] or "", p["msg"][:400]),
                              {"family": fam, "lang": job["lang"], "file": p["file"], "class": key, "program": p["program"],
                               "source": src, "message": p["msg"]})
    ctx.cov.update({"programs_by_family": dict(fam_prog), "files_analysed_with_clang_import": nfiles,
                    "variable_uses": dict(stats), "dump_invariant_instances": dict(dstats),
                    "internal_error_classes_not_judged": dict(ierrs), "problem_classes_seen": dict(keys_seen)})
    ctx.assumptions = ["crash = negative/128+ exit status or a sanitizer report on stderr of the ASan+UBSan build; a run that does "
                       "not finish within 25 minutes is recorded as not judged",
                       "an internal error reported for a file exempts that file from (b) and (c), as the statement says",
                       "token positions of the import are only approximately clang's: a use is judged through the tokens at "
                       "the begin/end of clang's expression range, a declaration through (candidate position, name)"]
    return ctx.finish(
        rule="S: all scope-grammar programs with <= 3 scopes%s (x2 global x; C subset as C); E: all 1-operator expressions "
             "%s that clang accepts, as C and C++; P: %d C++ and %d C one-feature translation "
             "units; evaluation = one program whose file the import processed; distinct/nontrivial = a program (S, E) with "
             "at least one judged linked variable use, or a snippet file (P) whose dump was checked" % (
                 " plus 4-scope chains" if tier == "thorough" else "",
                 "and all 2-operator expressions" if tier == "thorough" else "", len(featgen.SNIPPETS_CPP) + len(featgen.KINDS_CPP),
                 len(featgen.SNIPPETS_C) + len(featgen.KINDS_C)))
