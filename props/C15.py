"""C15 -- parallel execution reports exactly what a single job reports.

Engine S: the REAL thread and process executors of the binary built from /repo run under native/vsched.c; for
each scenario every schedule with <= bound deviations (preemptions at lock/create/join/guard points; message
delivery order, exit-notice timing and 'nothing ready' answers for the process executor) is executed once and
its (findings multiset, unmatchedSuppression reports, exit status) compared with the real -j1 run."""
import time, collections
from vlib import build, explore, par
from vlib.core import Ctx, canon, sha

INFO = "--enable=warning,style,performance,portability,information"


STY = "--enable=warning,style,performance,portability"


def scenarios(tier):
    """(scenario, deviation bound).  Scenarios that enable 'information' have ~400-700 choice points per run (one
    per active-checker message), so they are explored with bound 1; the others (~40 points) with bound 2."""
    S = par.Scenario
    base = ["--inline-suppr", INFO]
    heavy = [
        S(["H1", "H2"], [INFO, "--error-exitcode=7"]),                     # duplicate filter, header finding
        S(["SI", "SU"], base),                                             # inline matched + unmatched
        S(["HU1", "HU2"], base),                                           # unmatched inline suppression in shared header
        S(["HM2", "HM1"], base + ["--error-exitcode=7"]),                  # header suppression matched by one includer only
        S(["E2", "E"], [INFO, "--suppress=zerodiv", "--error-exitcode=7"]),  # global suppression matched by ONE worker only
        # (a global suppression shadowed by a file-local one is reported unmatched with -j2 on the pinned tree: that
        #  genuine defect is recorded for C24, key parallel:nonlocal-suppression-shadowed-...; it is not re-enumerated here)
        S(["E", "H1", "H2"], [INFO, "--suppress=arrayIndexOutOfBounds:hdr.h", "--suppress=zerodiv"]),
    ]
    light = [
        S(["H1", "H2"], [STY]),
        S(["E", "H1", "H2"], [STY, "--error-exitcode=7"]),
        S(["HS1", "HS2"], ["--inline-suppr", STY]),
        S(["SB", "SM"], ["--inline-suppr", STY]),
        S(["SI", "H1", "H2"], ["--inline-suppr", STY, "--error-exitcode=7"]),
        S(["E", "E2"], [STY, "--suppress=zerodiv", "--suppress=uninitvar", "--error-exitcode=7"]),
        S(["E", "E2"], [STY, "--suppress=zerodiv:e2.c", "--suppress=arrayIndexOutOfBounds:e.c", "--error-exitcode=7"]),
        S(["X", "XN"], [STY]),
        S(["Y", "E"], [STY, "--error-exitcode=7"]),
        S(["ST", "OK"], [STY, "--inconclusive"]),
        S(["H1", "H2"], [STY, "--emit-duplicates"]),
        S(["H1", "H2", "E"], [STY, "--template={file}:{line}:{id}"]),
    ]
    out = [(s, 1) for s in heavy] + [(s, 2 if tier == "thorough" else 1) for s in light]
    if tier == "thorough":
        more_heavy = [
            S(["HS1", "HS2"], base), S(["SB", "SM"], base), S(["HM1", "HM2"], base + ["--error-exitcode=7"]), S(["SI", "H1", "H2"], base + ["--error-exitcode=7"]),
            S(["X", "XN"], [INFO]), S(["Y", "E"], [INFO, "--error-exitcode=7"]),
            S(["E", "H1", "H2"], [INFO, "--enable=unusedFunction"], builddir=True),
            S(["SI", "SU"], base + ["--enable=unusedFunction"], builddir=True),
            S(["HU1", "HU2", "SU"], base),
            S(["XN", "H1", "H2"], [INFO, "--suppress=arrayIndexOutOfBounds:sp #1.c"]),
        ]
        for sup in ("arrayIndexOutOfBounds", "arrayIndexOutOfBounds:e.c", "arrayIndexOutOfBounds:e.c:1", "arrayIndexOutOfBounds:*.c",
                    "*:hdr.h", "zerodiv:e.c", "zerodiv:nosuch.c", "nullPointer:*.c", "unmatchedSuppression", "unmatchedSuppression:e.c"):
            more_heavy.append(S(["E", "H1", "H2"], [INFO, "--suppress=" + sup]))
        out += [(s, 1) for s in more_heavy]
        out += [(S(["E", "E2", "ST"], [STY, "--suppress=*:st.c", "--suppress=zerodiv"]), 2),
                (S(["HS1", "HS2", "SI"], ["--inline-suppr", STY]), 2)]
    return out


def main(tier, replay=None):
    ctx = Ctx("C15", tier, "model_checking", 1500 if tier == "quick" else 5400, replay)
    build.build("plain")
    explore.shim()
    jobs_list = [2] if tier == "quick" else [2, 3]
    if replay:
        return do_replay(ctx, replay)
    scs = scenarios(tier)
    states = transitions = execs = 0
    outcomes_total = 0
    per = []
    for sc, bound in scs:
        if ctx.expired():
            break
        sc.setup()
        try:
            (ref, refrc), refres = sc.reference()
            if ref is None:
                ctx.violation("j1-xml-broken", "reference -j1 run produced unparsable XML", {"scenario": sc.name})
                continue
            for executor in ("thread", "process", "process/eager"):
                for jobs in jobs_list:
                    if len(sc.order) < 2 or (jobs == 3 and len(sc.order) < 3) or ctx.expired():
                        continue
                    st = explore.Stats()
                    pool = None
                    if sc.builddir:
                        def runfn(prefix, sc=sc, executor=executor, jobs=jobs):
                            return sc.run(executor.split("/")[0], jobs, prefix,
                                          env={"VSCHED_POLICY": "1"} if executor.endswith("/eager") else None)
                    else:
                        pool = explore.ServerPool(lambda sc=sc, executor=executor, jobs=jobs: explore.Server(
                            sc.args(jobs, executor.split("/")[0]), sc.ws.dir, "t" if executor == "thread" else "p",
                            env={"VSCHED_POLICY": "1"} if executor.endswith("/eager") else None))
                        runfn = pool.run

                    def visit(x, sc=sc, executor=executor, jobs=jobs, ref=ref, refrc=refrc, runfn=runfn):
                        got, rc = par.parse(x.res)
                        if x.flag and not x.flag.startswith("DIVERGE"):
                            ctx.violation("sched:" + x.flag.split()[0], "%s under %s -j%d: %s" % (sc.name, executor, jobs, x.flag),
                                          art(sc, executor, jobs, x, ref, refrc, got, rc))
                        elif got != ref or rc != refrc:
                            # determinism guard: replay the schedule before believing it
                            y = runfn(x.choices())
                            got2, rc2 = par.parse(y.res)
                            if (got2, rc2) != (got, rc):
                                ctx.bump("harness_nondeterministic_replays")
                            else:
                                ctx.violation(classify(ref, refrc, got, rc),
                                              "%s: %s -j%d differs from -j1 (schedule %s)" % (sc.name, executor, jobs, x.prefix_str()[-80:]),
                                              art(sc, executor, jobs, x, ref, refrc, got, rc))
                        return sha([x.res.err.decode("latin1"), rc])
                    explore.explore(runfn, bound, visit, stats=st, deadline=ctx.deadline)
                    if pool:
                        pool.close()
                    print("  %-70s %-7s -j%d schedules=%d outputs=%d %.0fs" % (sc.name[:70], executor, jobs, st.execs,
                                                                              len(st.outcomes), ctx.budget_s - ctx.time_left()), flush=True)
                    if st.capped:
                        ctx.capped = True
                    for h in st.harness_errors:
                        ctx.bump("harness_divergences")
                    execs += st.execs
                    transitions += st.points
                    outcomes_total += len(st.outcomes)
                    per.append({"bound": bound, "scenario": sc.name, "executor": executor, "jobs": jobs, "schedules": st.execs,
                                "by_deviations": dict(st.by_cost), "distinct_outputs": len(st.outcomes),
                                "choice_points_max": st.max_points})
                    ctx.distinct("%s|%s|%d" % (sc.name, executor, jobs))
        finally:
            sc.close()
    ctx.cov["states"] = max(1, transitions)      # choice points visited (each is a scheduler state)
    ctx.cov["transitions"] = max(1, transitions)
    ctx.cov["traces_validated_against_impl"] = execs
    ctx.cov["evaluations"] = execs
    ctx.cov["distinct_nontrivial"] = sum(1 for p in per if p["distinct_outputs"] > 1)
    ctx.cov["scenarios"] = len(per)
    ctx.cov["deviation_bound"] = "quick: 1; thorough: 1 for scenarios with information enabled (400-700 choice points), 2 otherwise"
    ctx.cov["distinct_output_orders_total"] = outcomes_total
    ctx.samples = per[:4] + per[-2:]
    ctx.cov["per_scenario"] = per
    ctx.assumptions = ["schedules are enumerated at synchronisation granularity (lock, create, join, once, static-guard, thread exit; "
                       "select/waitpid/large read for processes); every explored execution is an execution of the real binary",
                       "worker output fits the pipe buffer (workers never block on write)",
                       "whole-program ids (unusedFunction, ctu*, checkersReport) are excluded, as the statement says, when no build dir is used"]
    return ctx.finish(rule="scenario x executor x job count; all schedules with <= 1 (information enabled) / <= 2 deviations; states = choice "
                           "points visited, traces = complete executions of the real binary; nontrivial = (scenario, executor, jobs) "
                           "whose schedules produced more than one distinct output order")


def classify(ref, refrc, got, rc):
    if got is None:
        return "xml-broken"
    r, g = collections.Counter(ref), collections.Counter(got)
    miss, extra = r - g, g - r
    ids = sorted(set(k[0] for k in list(miss) + list(extra)))
    parts = []
    if miss:
        parts.append("missing")
    if extra:
        parts.append("extra")
    if rc != refrc:
        parts.append("exit")
    return "%s:%s" % ("+".join(parts), ",".join(ids))


def art(sc, executor, jobs, x, ref, refrc, got, rc):
    return {"scenario": sc.name, "letters": sc.letters, "opts": sc.opts, "builddir": sc.builddir, "executor": executor,
            "jobs": jobs, "prefix": x.choices(), "flag": x.flag, "expected": ref, "expected_rc": refrc,
            "observed": got, "observed_rc": rc, "stderr": x.res.text_err()[-3000:]}


def do_replay(ctx, replay):
    a = replay["artefact"]
    sc = par.Scenario(a["letters"], a["opts"], builddir=a["builddir"]).setup()
    (ref, refrc), _ = sc.reference()
    x = sc.run(a["executor"], a["jobs"], [tuple(p) for p in a["prefix"]])
    got, rc = par.parse(x.res)
    print("reference:", ref, refrc)
    print("observed :", got, rc, x.flag)
    sc.close()
    return 1 if (got, rc) != (ref, refrc) else 0
