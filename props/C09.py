"""C09 -- expression types follow the language's conversion rules.

Style I, reference = compiler.  Every (T1 op T2), unary, conditional, cast, sizeof and literal expression over the
arithmetic / character / boolean / enum / pointer type list is written as `void fN(void){ (void)(EXPR); }`, thousands of
functions per file, one `cppcheck --dump --platform=P` run per file.  The valueType (type, sign, pointer) cppcheck puts on
the root token of EXPR is turned into a static assertion `typeof(EXPR) is CLAIM`; one compiler run with -fsyntax-only for
the matching target judges the whole file (gcc, gcc -m32, clang --target=...-windows-msvc, clang --target=avr ...).
Failing assertions are probed once more against a candidate list to learn the compiler's type (for the class key only).
"""
import os, re, subprocess, json
from vlib import build, run, dumpx
from vlib.core import Ctx, sha, NCPU

# ---- types ----------------------------------------------------------------------------------------------
TYPES = [  # id, C spelling, C++ spelling
    ("b", "_Bool", "bool"), ("c", "char", "char"), ("sc", "signed char", "signed char"), ("uc", "unsigned char", "unsigned char"),
    ("s", "short", "short"), ("us", "unsigned short", "unsigned short"), ("i", "int", "int"), ("u", "unsigned int", "unsigned int"),
    ("l", "long", "long"), ("ul", "unsigned long", "unsigned long"), ("ll", "long long", "long long"),
    ("ull", "unsigned long long", "unsigned long long"), ("f", "float", "float"), ("d", "double", "double"),
    ("ld", "long double", "long double"), ("e", "enum E", "E"), ("pi", "int *", "int *"), ("pc", "char *", "char *")]
TNAME = {t[0]: t[1] for t in TYPES}
PTRS = ("pi", "pc")
BINOPS = ["*", "/", "%", "+", "-", "<<", ">>", "<", "<=", ">", ">=", "==", "!=", "&", "^", "|", "&&", "||",
          "=", "+=", "-=", "*=", "/=", "%=", "<<=", ">>=", "&=", "^=", "|=", ","]
PREOPS = ["+", "-", "!", "~", "++", "--", "*", "&"]
INTVALS = [0, 1, 127, 128, 255, 32767, 32768, 65535, 65536, 2147483647, 2147483648, 4294967295, 4294967296,
           9223372036854775807, 9223372036854775808, 18446744073709551615]
ISUF = ["", "u", "U", "l", "L", "ul", "lu", "UL", "ll", "LL", "ull", "llu", "uLL"]
FLITS = ["1.0", "1.0f", "1.0F", "1.0l", "1.0L", "1e3", "1.f", ".5", "1e-3f", "0x1p3", "0x1.8p1f"]
CLITS = ["'a'", "L'a'", "u'a'", "U'a'", "'\\n'", "'\\377'", "'ab'"]


def decls(lang):
    out = ["enum E { EN = -1, E0, E1 };"]
    for tid, c, cpp in TYPES:
        t = c if lang == "c" else cpp
        out.append("%s a_%s; %s b_%s;" % (t, tid, t, tid))
    return "\n".join(out) + "\n"


def expressions(lang):
    """-> list of (kind key, text, expected root token str | None)"""
    ex = []
    def mixed(t1, t2):       # two different pointer types: a constraint violation that gcc merely warns about
        return t1 in PTRS and t2 in PTRS and t1 != t2
    for op in BINOPS:
        for t1, _, _ in TYPES:
            for t2, _, _ in TYPES:
                if not mixed(t1, t2):
                    ex.append(("bin:%s:%s,%s" % (op, t1, t2), "a_%s %s b_%s" % (t1, op, t2), op))
    for t1, _, _ in TYPES:
        for t2, _, _ in TYPES:
            if not mixed(t1, t2):
                ex.append(("cond:%s,%s" % (t1, t2), "a_i ? a_%s : b_%s" % (t1, t2), "?"))
    for op in PREOPS:
        for t, _, _ in TYPES:
            ex.append(("pre:%s:%s" % (op, t), "%sa_%s" % (op, t), op))
    for op in ("++", "--"):
        for t, _, _ in TYPES:
            ex.append(("post:%s:%s" % (op, t), "a_%s%s" % (t, op), op))
    for t, _, _ in TYPES:
        ex.append(("sizeofexpr:%s" % t, "sizeof a_%s" % t, "("))
        ex.append(("sizeoftype:%s" % t, "sizeof(%s)" % (TNAME[t] if lang == "c" else dict((x[0], x[2]) for x in TYPES)[t]), "("))
        ex.append(("var:%s" % t, "a_%s" % t, "a_%s" % t))
    for p in ("pi", "pc"):
        for t, _, _ in TYPES:
            ex.append(("index:%s,%s" % (p, t), "a_%s[b_%s]" % (p, t), "["))
    for t1, c, cpp in TYPES:
        for t2, _, _ in TYPES:
            ex.append(("cast:%s,%s" % (t1, t2), "(%s)b_%s" % (c if lang == "c" else cpp, t2), "("))
    for v in INTVALS:
        for base, fmt in (("dec", "%d"), ("hex", "0x%x"), ("oct", "0%o")):
            for suf in ISUF:
                if base == "dec" and "u" not in suf.lower() and v > 9223372036854775807:
                    continue            # no type in the standard list: "the integer constant has no type"
                ex.append(("intlit:%s:%s:%d" % (base, suf, v), (fmt % v) + suf, None))
    for f in FLITS:
        ex.append(("floatlit:" + f, f, None))
    for c in CLITS:
        ex.append(("charlit:" + c, c, None))
    if lang == "cpp":
        ex.append(("boollit:true", "true", None))
        ex.append(("boollit:false", "false", None))
    return ex


# ---- platforms ------------------------------------------------------------------------------------------
STD = {"c": "c11", "cpp": "c++17"}      # given to cppcheck (--std=) and to the compiler (-std=) alike


def cc(lang, *args):
    return list(args) + ["-x", "c" if lang == "c" else "c++", "-std=" + STD[lang], "-fsyntax-only", "-w"]


PLATFORMS = {   # name: (cppcheck platform argument, compiler argv prefix by language, tier)
    "native": (None, lambda lang: cc(lang, "gcc", "-fmax-errors=0"), "quick"),
    "unix64": ("unix64", lambda lang: cc(lang, "gcc", "-fmax-errors=0"), "thorough"),      # = native on this host
    "unix32": ("unix32", lambda lang: cc(lang, "gcc", "-m32", "-fmax-errors=0"), "quick"),
    "win32A": ("win32A", lambda lang: cc(lang, "clang", "--target=i686-pc-windows-msvc", "-fno-ms-compatibility", "-ferror-limit=0"), "quick"),
    "win32W": ("win32W", lambda lang: cc(lang, "clang", "--target=i686-pc-windows-msvc", "-fno-ms-compatibility", "-ferror-limit=0"), "quick"),
    "win64": ("win64", lambda lang: cc(lang, "clang", "--target=x86_64-pc-windows-msvc", "-fno-ms-compatibility", "-ferror-limit=0"), "quick"),
    "avr8": ("avr8", lambda lang: cc(lang, "clang", "--target=avr", "-ferror-limit=0"), "thorough"),
    "arm32-wchar_t4": ("arm32-wchar_t4", lambda lang: cc(lang, "clang", "--target=arm-linux-gnueabi", "-ferror-limit=0"), "thorough"),
    "arm64-wchar_t4": ("arm64-wchar_t4", lambda lang: cc(lang, "clang", "--target=aarch64-linux-gnu", "-ferror-limit=0"), "thorough"),
    "riscv32": ("riscv32", lambda lang: cc(lang, "clang", "--target=riscv32-unknown-linux-gnu", "-ferror-limit=0"), "thorough"),
    "riscv64": ("riscv64", lambda lang: cc(lang, "clang", "--target=riscv64-unknown-linux-gnu", "-ferror-limit=0"), "thorough"),
    "mips32": ("mips32", lambda lang: cc(lang, "clang", "--target=mipsel-linux-gnu", "-ferror-limit=0"), "thorough"),
    "msp430": ("msp430_eabi_large_datamodel", lambda lang: cc(lang, "clang", "--target=msp430", "-ferror-limit=0"), "thorough"),
}

RE_ERR = re.compile(r"^[^:\n]+:(\d+):\d+: (?:fatal )?error: (.*)$", re.M)


def compile_lines(argv, src, cwd, name):
    """-> {line: [messages]} of error diagnostics"""
    path = os.path.join(cwd, name)
    with open(path, "w") as f:
        f.write(src)
    p = subprocess.run(argv + [name], cwd=cwd, stdout=subprocess.PIPE, stderr=subprocess.PIPE)
    out = {}
    for m in RE_ERR.finditer(p.stderr.decode("utf-8", "replace")):
        out.setdefault(int(m.group(1)), []).append(m.group(2))
    return out, p


def is_assert_failure(msgs):
    return any(("static assertion failed" in m) or ("static_assert failed" in m) or ("static assertion failed" in m.lower()) for m in msgs)


def platform_facts(argv_fn, dumped):
    """ask the compiler whether the oracle target agrees with the sizes cppcheck prints for the platform and learn the
    signedness of plain char and the type behind wchar_t; -> (ok, char_signed, problems)"""
    names = [("short", "short_bit"), ("int", "int_bit"), ("long", "long_bit"), ("long long", "long_long_bit"),
             ("float", "float_bit"), ("double", "double_bit"), ("long double", "long_double_bit"), ("void *", "pointer_bit"),
             ("__WCHAR_TYPE__", "wchar_t_bit"), ("__SIZE_TYPE__", "size_t_bit")]
    lines = ["_Static_assert(sizeof(%s) * 8 == %s, \"%s\");" % (t, dumped[k], k) for t, k in names]
    lines.append("_Static_assert((char)-1 < 0, \"char_signed\");")
    with run.WS() as ws:
        errs, p = compile_lines(argv_fn("c"), "\n".join(lines) + "\n", ws.dir, "facts.c")
    probs = [names[l - 1][1] for l in errs if l <= len(names)]
    char_signed = (len(names) + 1) not in errs
    return probs, char_signed


# ---- claims ---------------------------------------------------------------------------------------------
INTS = ("short", "int", "long", "long long")


def claim_types(vt, lang, char_signed):
    """type spellings the claim (valueType-type, -sign, -pointer) stands for; None = nothing this check can judge"""
    ty, sign, ptr = vt
    stars = " *" * int(ptr or 0)
    if ty == "bool":
        base = ["_Bool" if lang == "c" else "bool"]
    elif ty == "char":
        if sign == "signed":
            base = ["signed char"] + (["char"] if char_signed else [])
        elif sign == "unsigned":
            base = ["unsigned char"] + ([] if char_signed else ["char"])
        else:
            base = ["char", "signed char", "unsigned char"]
    elif ty in INTS:
        if sign == "signed":
            base = [ty]
        elif sign == "unsigned":
            base = ["unsigned " + ty]
        else:
            base = [ty, "unsigned " + ty]
        # types the dump vocabulary cannot name are judged through their underlying type
        if ty == "int" and sign == "signed":
            base.append("enum E" if lang == "c" else "E")
        if lang == "cpp" and sign == "unsigned":      # (only where the claimed type is what the target uses underneath)
            base.append("u16_<unsigned %s>::t" % ty)
            base.append("u32_<unsigned %s>::t" % ty)
    elif ty == "wchar_t":
        base = ["__WCHAR_TYPE__" if lang == "c" else "wchar_t"]
    elif ty in ("float", "double", "long double"):
        base = [ty]
    else:
        return None
    return [b + stars for b in base]


CANDS = ["_Bool", "char", "signed char", "unsigned char", "short", "unsigned short", "int", "unsigned int", "long",
         "unsigned long", "long long", "unsigned long long", "float", "double", "long double", "enum E"]


def cands(lang):
    c = [("bool" if x == "_Bool" else "E" if x == "enum E" else x) if lang == "cpp" else x for x in CANDS]
    if lang == "cpp":
        c += ["wchar_t", "char16_t", "char32_t"]
    base = list(c)
    c += [b + " *" for b in base] + [b + " * *" for b in base]
    return c


PRE_C = ""
PRE_CPP = ("template<class A, class B> struct same_ { static const bool v = false; };\n"
           "template<class A> struct same_<A, A> { static const bool v = true; };\n"
           "template<class T> struct rr_ { typedef T u_; }; template<class T> struct rr_<T&> { typedef T u_; };\n"
           "template<class T> struct rr_<T&&> { typedef T u_; };\n"
           "template<class T> struct cv_ { typedef T u_; }; template<class T> struct cv_<const T> { typedef T u_; };\n"
           "template<class T> struct cv_<volatile T> { typedef T u_; }; template<class T> struct cv_<const volatile T> { typedef T u_; };\n"
           "struct none_ {}; template<class T> struct u16_ { typedef none_ t; }; template<> struct u16_<__CHAR16_TYPE__> { typedef char16_t t; };\n"
           "template<class T> struct u32_ { typedef none_ t; }; template<> struct u32_<__CHAR32_TYPE__> { typedef char32_t t; };\n")


def tc(lang, text, t):
    if lang == "c":
        return "__builtin_types_compatible_p(__typeof__(%s), %s)" % (text, t)
    return "same_<cv_<rr_<decltype((%s))>::u_>::u_, %s>::v" % (text, t)


def assert_line(lang, text, types, negate=False):
    cond = " || ".join(tc(lang, text, t) for t in types)
    if negate:
        cond = "!(%s)" % cond
    return "%s(%s, \"x\");" % ("_Static_assert" if lang == "c" else "static_assert", cond)


def oracle(argv, lang, lines, ws, name):
    """compile `lines` (one assertion per line) behind the prelude; two control assertions prove that the compiler
    run judged the file at all.  -> {index: [messages]}"""
    pre = (PRE_C if lang == "c" else PRE_CPP) + decls(lang)
    pl = pre.count("\n")
    ctl = [assert_line(lang, "a_i", ["int"]), assert_line(lang, "a_i", ["long"])]
    errs, p = compile_lines(argv, pre + "\n".join(lines + ctl) + "\n", ws.dir, name)
    n = len(lines)
    if any(l <= pl for l in errs) or (pl + n + 1) in errs or not is_assert_failure(errs.get(pl + n + 2, [])):
        raise RuntimeError("oracle compiler run is unusable: %s\n%s" % (argv, p.stderr.decode("utf-8", "replace")[:1500]))
    return {l - pl - 1: m for l, m in errs.items() if l <= pl + n}


# ---- one (platform, language, slice) job ------------------------------------------------------------------
def observe(plat_arg, lang, exprs):
    """one cppcheck run -> per expression: (vt | None, status) ; status in ok / noroot / notype / rejected:<id>"""
    fn = "t.c" if lang == "c" else "t.cpp"
    hdr = decls(lang)
    hl = hdr.count("\n")
    lines = ["void f%d(void){ (void)(%s); }" % (j, e[1]) for j, e in enumerate(exprs)]
    res = [None] * len(exprs)
    flaky = 0
    with run.WS() as ws:
        for attempt in range(200):
            ws.write(fn, hdr + "\n".join(lines) + "\n")
            ws.remove(fn + ".dump")
            args = ["-q", "--dump", "--std=" + STD[lang]] + (["--platform=" + plat_arg] if plat_arg else []) + [fn]
            r = dumpx.cppcheck_retry(args, ws.dir, timeout=900)
            d = dumpx.parse(ws.path(fn + ".dump"), min_line=hl + 1) if os.path.exists(ws.path(fn + ".dump")) else None
            if d is not None and d.tokens:
                break
            prog = False
            for (_f, ln, _c, sev, msg, did) in dumpx.diagnostics(r.text_err()):
                j = ln - hl - 1
                if sev == "error" and 0 <= j < len(exprs) and res[j] is None:
                    res[j] = (None, "rejected:" + did)
                    lines[j] = ""
                    prog = True
            if not prog:
                flaky += 1
                if flaky <= 10 and "error" not in r.text_err():   # no dump, no diagnostic: the binary is being relinked by another check
                    import time
                    time.sleep(3)
                    continue
                raise RuntimeError("no dump: " + r.text_err()[:400])
        bl = d.lines()
        for j, e in enumerate(exprs):
            if res[j] is not None:
                continue
            lt = bl.get(hl + 1 + j, [])
            cast = None
            for t in lt:
                if t["str"] == "(" and t.get("isCast") == "true" and not t.get("astParent"):
                    cast = t
                    break
            root = d.by_id.get(cast.get("astOperand1")) if cast is not None else None
            if root is None or (e[2] is not None and root["str"] != e[2]):
                res[j] = (None, "noroot")
                continue
            ty = root.get("valueType-type")
            if ty is None:
                res[j] = (None, "notype")
                continue
            res[j] = ((ty, root.get("valueType-sign"), root.get("valueType-pointer")), "ok")
        platform = d.platform
    return res, platform


def job(a):
    """-> dict with per-expression verdicts for one (platform, language, slice)"""
    import time
    pname, lang, lo, hi, deadline = a
    if time.time() > deadline:
        return None
    plat_arg, argv_fn, _ = PLATFORMS[pname]
    exprs = expressions(lang)[lo:hi]
    res, platform = observe(plat_arg, lang, exprs)
    probs, char_signed = platform_facts(argv_fn, platform)
    out = {"platform": pname, "lang": lang, "lo": lo, "size_problems": probs, "char_signed": char_signed, "verdicts": [],
           "sizes": platform}
    if probs:
        return out
    # pass 1: is the expression valid for the compiler at all, and does the claim hold
    claims = []
    lines = []
    for e, (vt, st) in zip(exprs, res):
        cl = claim_types(vt, lang, char_signed) if vt else None
        claims.append(cl)
        if cl:
            lines.append(assert_line(lang, e[1], cl))
        else:
            lines.append("%s(sizeof((%s), 0) >= 0, \"x\");" % ("_Static_assert" if lang == "c" else "static_assert", e[1]))
    ext = "c" if lang == "c" else "cpp"
    with run.WS() as ws:
        errs = oracle(argv_fn(lang), lang, lines, ws, "o1." + ext)
        failing = []
        for j, e in enumerate(exprs):
            msgs = errs.get(j)
            vt, st = res[j]
            if msgs and not is_assert_failure(msgs):
                out["verdicts"].append((e[0], "invalid", vt, None))     # the compiler rejects the expression: not judged
            elif st != "ok":
                out["verdicts"].append((e[0], st, None, None))
            elif claims[j] is None:
                out["verdicts"].append((e[0], "unjudged-type", vt, None))
            elif msgs:
                failing.append(j)
                out["verdicts"].append([e[0], "MISMATCH", vt, None])
            else:
                out["verdicts"].append((e[0], "match", vt, None))
        # pass 2: which type does the compiler give (label only)
        if failing:
            cs = cands(lang)
            lines2 = []
            for j in failing:
                for c in cs:
                    lines2.append(assert_line(lang, exprs[j][1], [c], negate=True))
            errs2 = oracle(argv_fn(lang), lang, lines2, ws, "o2." + ext)
            for k, j in enumerate(failing):
                actual = [c for ci, c in enumerate(cs) if is_assert_failure(errs2.get(k * len(cs) + ci, []))]
                out["verdicts"][j][3] = actual[0] if actual else "?"
    return out


ARITH = ("*", "/", "%", "+", "-", "&", "^", "|")


def vt_str(vt):
    ty, sign, ptr = vt
    return ((sign + " ") if sign else "") + ty + " *" * int(ptr or 0)


RANK = {"b": 0, "c": 1, "sc": 1, "uc": 1, "s": 2, "us": 2, "i": 3, "u": 3, "e": 3, "l": 4, "ul": 4, "ll": 5, "ull": 5}
SMALL = ("b", "c", "sc", "uc", "s", "us")
RNAME = {3: "int", 4: "long", 5: "long long"}


def class_key(kind, vt, actual, sizes):
    """canonical class of a mismatch.  Known rule-level defects get a class name computed from the operand types and
    the sizes of the platform (so the same wrong rule on two platforms is one class); everything else keeps a concrete
    key: category | operand types | claimed type | compiler's type."""
    k = kind.split(":")
    cl = vt_str(vt)
    claim = "claim=%s|actual=%s" % (cl, actual)
    bits = {"b": 8, "c": 8, "sc": 8, "uc": 8, "s": int(sizes["short_bit"]), "us": int(sizes["short_bit"]),
            "i": int(sizes["int_bit"]), "u": int(sizes["int_bit"]), "e": int(sizes["int_bit"]), "l": int(sizes["long_bit"]),
            "ul": int(sizes["long_bit"]), "ll": int(sizes["long_long_bit"]), "ull": int(sizes["long_long_bit"])}

    def prom(t):        # integer promotion on this platform -> (rank, unsigned?)
        if t not in RANK:
            return None
        if RANK[t] < 3:
            return (3, t == "us" and bits["us"] == bits["i"])
        return (RANK[t], t in ("u", "ul", "ull"))

    def same_width_rule(t1, t2):
        """signed operand of higher rank and unsigned operand of lower rank with the same width: C converts both to the
        unsigned type corresponding to the signed one; cppcheck answers the signed type"""
        p1, p2 = prom(t1), prom(t2)
        if not p1 or not p2 or p1[1] == p2[1]:
            return False
        sg, us = (p1, p2) if p2[1] else (p2, p1)
        wid = {3: bits["i"], 4: bits["l"], 5: bits["ll"]}
        return sg[0] > us[0] and wid[sg[0]] == wid[us[0]] and cl == "signed " + RNAME[sg[0]] and actual == "unsigned " + RNAME[sg[0]]

    def ushort_rule(ts):
        return bits["us"] == bits["i"] and "us" in ts and cl == "signed int" and actual == "unsigned int"

    if k[0] == "bin":
        op = k[1]
        t1, t2 = k[2].split(",")
        if op in ("<", "<=", ">", ">=", "==", "!=", "&&", "||"):
            if cl == "bool" and actual == "int":
                return "c-comparison-logical-not-result-claimed-bool"
            return "compare|" + claim
        if op in ARITH:
            if t1 in PTRS and t2 in PTRS:
                if cl == "signed int" and actual in ("long", "long long"):
                    return "pointer-difference-claimed-int"
                return "pointer-difference|" + claim
            if t1 in PTRS or t2 in PTRS:
                return "pointer-arith|%s|%s" % (",".join(sorted((t1, t2))), claim)
            if same_width_rule(t1, t2):
                return "usual-arithmetic-conversions-signed-type-same-width-as-unsigned-operand"
            if ushort_rule((t1, t2)):
                return "unsigned-short-not-promoted-to-unsigned-int-when-int-is-as-narrow-as-short"
            return "arith|%s|%s" % (",".join(sorted((t1, t2))), claim)
        if op in ("<<", ">>"):
            if ushort_rule((t1,)):
                return "unsigned-short-not-promoted-to-unsigned-int-when-int-is-as-narrow-as-short"
            return "shift|%s,%s|%s" % (t1, t2, claim)
        if op == ",":
            return "comma|%s,%s|%s" % (t1, t2, claim)
        return "assign|%s,%s|%s" % (t1, t2, claim)
    if k[0] == "cond":
        t1, t2 = k[1].split(",")
        if same_width_rule(t1, t2):
            return "usual-arithmetic-conversions-signed-type-same-width-as-unsigned-operand"
        if t1 in SMALL and t2 in SMALL and actual in ("int", "unsigned int") and vt[0] in ("bool", "char", "short"):
            return "conditional-operator-small-operands-not-promoted"
        if ushort_rule((t1, t2)):
            return "unsigned-short-not-promoted-to-unsigned-int-when-int-is-as-narrow-as-short"
        p1, p2 = prom(t1), prom(t2)
        if p1 and p2 and p1[0] == p2[0] and p1[1] != p2[1] and cl == "signed " + RNAME[p1[0]] and actual == "unsigned " + RNAME[p1[0]]:
            return "conditional-operator-signed-and-unsigned-of-same-rank-claimed-signed"
        return "cond|%s|%s" % (",".join(sorted((t1, t2))), claim)
    if k[0] in ("pre", "post"):
        if k[1] in ("++", "--"):
            if k[2] in SMALL and cl == "signed int":
                return "increment-decrement-of-small-type-claimed-int"
            return "incdec|%s|%s" % (k[2], claim)
        if k[1] == "!":
            if cl == "bool" and actual == "int":
                return "c-comparison-logical-not-result-claimed-bool"
            return "not|" + claim
        if ushort_rule((k[2],)):
            return "unsigned-short-not-promoted-to-unsigned-int-when-int-is-as-narrow-as-short"
        return "unary%s|%s|%s" % (k[1], k[2], claim)
    if k[0] in ("sizeofexpr", "sizeoftype"):
        if cl == "unsigned long" and actual == "unsigned int":
            return "sizeof-claimed-unsigned-long-where-size_t-is-unsigned-int"
        return "sizeof|" + claim
    if k[0] == "intlit":
        suf = k[2].lower()
        v = int(k[3])
        width = {"int": bits["i"], "long": bits["l"], "long long": bits["ll"]}
        if k[1] == "hex" and vt[1] == "unsigned" and vt[0] in width and v.bit_length() == width[vt[0]] + 1:
            return "hex-literal-one-bit-wider-than-T-claimed-unsigned-T"
        at = actual.replace("unsigned ", "")
        if k[1] == "oct" and actual.startswith("unsigned ") and at in width and v.bit_length() == width[at]:
            return "octal-literal-typed-by-the-decimal-rules"
        return "intlit|%s|suffix=%s%s|bits=%d|%s" % (k[1], "u" if "u" in suf else "", "l" * suf.count("l"), v.bit_length(), claim)
    if k[0] == "cast":
        return "cast|to=%s|%s" % (k[1].split(",")[0], claim)
    if k[0] == "charlit" and k[1].startswith("'\\") and cl == "signed int" and actual == "char":
        return "cpp-character-literal-with-octal-escape-claimed-int"
    return "%s|%s" % (kind, claim)


def main(tier, replay=None):
    ctx = Ctx("C09", tier, "model_checking", 170 if tier == "quick" else 1700, replay)
    build.build("plain")
    if replay:
        a = replay["artefact"]
        plat_arg, argv_fn, _ = PLATFORMS[a["platform"]]
        e = (a["kind"], a["text"], None)
        res, platform = observe(plat_arg, a["lang"], [e])
        probs, char_signed = platform_facts(argv_fn, platform)
        vt, st = res[0]
        print("expression `%s`  platform %s  language %s" % (a["text"], a["platform"], a["lang"]))
        print("  cppcheck valueType:", vt, st)
        if vt:
            cl = claim_types(vt, a["lang"], char_signed)
            with run.WS() as ws:
                errs = oracle(argv_fn(a["lang"]), a["lang"], [assert_line(a["lang"], a["text"], cl)], ws, "r." + ("c" if a["lang"] == "c" else "cpp"))
                cs = cands(a["lang"])
                errs2 = oracle(argv_fn(a["lang"]), a["lang"], [assert_line(a["lang"], a["text"], [c], negate=True) for c in cs], ws,
                               "r2." + ("c" if a["lang"] == "c" else "cpp"))
            print("  expected (compiler %s): %s" % (" ".join(argv_fn(a["lang"])[:3]), [c for i, c in enumerate(cs) if is_assert_failure(errs2.get(i, []))]))
            print("  observed claim accepted by the compiler:", 0 not in errs, "(claim stands for %s)" % cl)
        return 0

    from concurrent.futures import ProcessPoolExecutor
    plats = [p for p, v in PLATFORMS.items() if v[2] == "quick" or tier != "quick"]
    SL = 2000
    jobs = []
    for pn in plats:
        for lang in ("c", "cpp"):
            n = len(expressions(lang))
            for lo in range(0, n, SL):
                jobs.append((pn, lang, lo, lo + SL, ctx.deadline))
    skipped = {}
    with ProcessPoolExecutor(max_workers=min(NCPU, 16)) as ex:
        for jb, out in zip(jobs, ex.map(job, jobs)):
            if out is None:
                ctx.capped = True
                continue
            pn, lang = out["platform"], out["lang"]
            if out["size_problems"]:
                skipped[pn] = out["size_problems"]
                continue
            exprs = expressions(lang)[jb[2]:jb[3]]
            for e, v in zip(exprs, out["verdicts"]):
                kind, verdict, vt, actual = v
                ctx.count()
                if verdict in ("match", "MISMATCH"):
                    ctx.bump("judged_token_has_type_and_compiler_accepts")
                    ctx.distinct("%s|%s|%s" % (pn, lang, kind))
                    if verdict == "match":
                        if kind.split(":")[0] in ("bin", "cond") and (vt[1] == "unsigned" or vt[0] in ("long", "double")) and "us" in kind:
                            ctx.sample({"platform": pn, "lang": lang, "expr": e[1], "cppcheck": vt_str(vt), "compiler": "agrees"}, maxn=5)
                        continue
                    key = class_key(kind, vt, actual, out["sizes"])
                    ctx.bump("mismatch")
                    ctx.violation(key, "%s %s: `%s` -- cppcheck says %s, the compiler says %s" % (pn, lang, e[1], vt_str(vt), actual),
                                  {"platform": pn, "lang": lang, "kind": kind, "text": e[1], "claim": vt, "compiler": actual})
                else:
                    ctx.bump("not_judged_" + verdict.split(":")[0].replace("-", "_"))
    ctx.cov["platforms"] = [p for p in plats if p not in skipped]
    ctx.cov["platforms_without_matching_compiler_target"] = skipped
    ctx.cov["expressions_per_platform_and_language"] = {l: len(expressions(l)) for l in ("c", "cpp")}
    ctx.cov.update({"states": len(ctx._distinct), "transitions": ctx.evaluations})
    ctx.assumptions = [
        "the claim is (valueType-type, -sign, -pointer) of the root token of the expression; plain char with unknown sign stands for "
        "char/signed char/unsigned char, char with a sign stands for that explicit type or plain char of the same platform sign",
        "types the dump vocabulary cannot name (enum E, char16_t, char32_t) are judged through their underlying type",
        "cppcheck and the compiler get the same language standard (--std=c11 / c++17)",
        "Windows platforms are compiled with clang --target=*-pc-windows-msvc -fno-ms-compatibility (same sizes, standard literal rules)",
        "every oracle target is first checked to have the sizes cppcheck prints for the platform, else the platform is skipped",
        "expressions the compiler rejects and tokens without valueType are counted, not judged; two different pointer types "
        "mixed in one operator and over-long decimal literals are not generated"]
    return ctx.finish(rule="all (T1 op T2) over 18 types x 30 binary operators, ?:, 8 prefix and 2 postfix operators, sizeof, "
                           "18x18 casts, subscripts, integer literals (16 boundary values x 3 bases x 13 suffixes), floating, "
                           "character and boolean literals x platforms x {C, C++}; distinct = (platform, language, expression) "
                           "with a typed root token and a compiler-accepted expression")
