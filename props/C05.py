"""C05 -- results are invariant under meaning-preserving rewrites.

Corpus: (i) every combination of K building blocks (functions / classes that each trigger one kind of finding) plus a
struct, a typedef, a global and a caller, as C and as C++ files with forward declarations at the top; (ii) the files of
/repo/samples.  For every program P and EVERY rewrite of the four finite families W (white space), B (blank / comment
line at each statement boundary, deletion of each blank / comment line), R (three total renamings) and O (every legal
permutation of the top-level definitions) the findings of rewrite(P) must be those of P after the rewrite's own
location / "line N" / name map.  Many variant files are analysed by one run of the real binary; every disagreement is
confirmed by two isolated single-file runs before it is reported.
"""
import collections, glob, itertools, os, re, sys
from vlib import build, run
from vlib.core import Ctx, pmap, sha
from vlib import c05_rewrite as rwm

OPTS = ["-q", "--enable=style", "--inconclusive", "--emit-duplicates"]
OPTS_ISOLATED = ["-q", "--enable=style", "--inconclusive"]
WHOLE = ("unusedFunction", "checkersReport")
BATCH = 240

# ---- exclusions that the property text itself makes (documentation quoted in the report / MANIFEST) ------------
#   family -> {id: which fields are exempt}; "all" = the finding may appear/disappear.
_SEMI = {"kinds": ("lost", "gained"),
         "doc": "suspiciousSemicolon: --doc 'Suspicious use of ; at the end of 'if/for/while' statement.'; "
                "lib/checkother.cpp:256-274 'Check for suspicious occurrences of 'if(); {}'' ... 'Ensure the semicolon is "
                "at the same line number as the if/for/while statement and the {..} block follows it without an extra "
                "empty line.' -- the documented trigger is the layout of the ';' and the following block"}
EXCLUDE = {
    "W": {"suspiciousSemicolon": _SEMI}, "B": {"suspiciousSemicolon": _SEMI}, "R": {}, "O": {},
}

# ------------------------------------------------------------------------------------------------------------
# building blocks: (name, lang, needs, proto lines, definition chunks, call statement)
#   a definition chunk is (list of lines, after) ; 'after' = names of chunks of the same block it must follow
BLOCKS = collections.OrderedDict()


def block(name, lang, src, protos=(), call=None, needs=(), order="chain", lean=False):
    """order: "chain" = the chunks of the block keep their order; "last" = only the last chunk must follow the others
    (overloads defined without prototypes, their user last).  lean: the file gets no global-array definition."""
    chunks = [c.strip("\n").split("\n") for c in src.strip("\n").split("\n//--\n")]
    BLOCKS[name] = {"name": name, "lang": lang, "chunks": chunks, "protos": list(protos), "call": call,
                    "needs": set(needs), "order": order, "lean": lean}


block("oob", "c", """
int get_oob(int num)
{
    int arr4[4];
    int idx;
    for (idx = 0; idx < 4; idx++) {
        arr4[idx] = num;
    }
    return arr4[4];
}
""", ["int get_oob(int num);"], "sum += get_oob(2);")

block("null", "c", """
int chk_null(int *ptr)
{
    int val = *ptr;
    if (ptr == 0) {
        return 0;
    }
    return val;
}
""", ["int chk_null(int *ptr);"], "sum += chk_null(&sum);")

block("div", "c", """
int do_div(int top)
{
    int den = 0;
    return top / den;
}
""", ["int do_div(int top);"], "sum += do_div(4);")

block("unread", "c", """
void set_unread(int src)
{
    int tmp;

    tmp = src;
}
""", ["void set_unread(int src);"], "set_unread(sum);")

block("redund", "c", """
int re_assign(int inp)
{
    int outp;
    outp = inp;
    outp = inp + 1;
    return outp;
}
""", ["int re_assign(int inp);"], "sum += re_assign(1);")

block("known", "c", """
int known_cond(int arg)
{
    int kk = 3;
    if (kk == 3) {
        return arg;
    }
    return 0;
}
""", ["int known_cond(int arg);"], "sum += known_cond(sum);")

block("leak", "c", """
void mem_leak(void)
{
    char *mm = (char *)malloc(10);
    if (mm) {
        mm[0] = 0;
    }
}
""", ["void mem_leak(void);"], "mem_leak();", needs=["stdlib"])

block("uninit", "c", """
int un_init(void)
{
    int uu;
    return uu;
}
""", ["int un_init(void);"], "sum += un_init();")

block("dupcond", "c", """
int dup_cond(int aa, int bb)
{
    if (aa == 1 && aa == 1) {
        return bb;
    }
    if (bb > 2) {
        return 1;
    } else if (bb > 2) {
        return 2;
    }
    return 0;
}
""", ["int dup_cond(int aa, int bb);"], "sum += dup_cond(sum, 1);")

block("nullarg", "c", """
void use_ptr(int *pp)
{
    *pp = 1;
}
""", ["void use_ptr(int *pp);"], "use_ptr(0);")

block("pair", "c", """
int use_pair(void)
{
    pair_t pr;
    pr.head = 2;
    return pr.head;
}
""", ["int use_pair(void);"], "sum += use_pair();", needs=["pair"])

block("global", "c", """
void set_tab(int vv)
{
    g_tab[3] = vv;
}
""", ["void set_tab(int vv);"], "set_tab(sum);", needs=["gtab"])

block("scope", "c", """
int var_scope(int cc)
{
    int loc = 0;
    if (cc) {
        loc = cc + 1;
        return loc;
    }
    return 0;
}
""", ["int var_scope(int cc);"], "sum += var_scope(sum);")

block("switch", "c", """
int sw_case(int sel)
{
    int res = 0;
    switch (sel) {
    case 1:
        res = 1;
    case 2:
        res = 2;
        break;
        break;
    default:
        break;
    }
    return res;
}
""", ["int sw_case(int sel);"], "sum += sw_case(sum);")

block("semi", "c", """
int semi_if(int qq)
{
    int rr = 0;
    if (qq == 1);
    {
        rr = 2;
    }
    return rr;
}
""", ["int semi_if(int qq);"], "sum += semi_if(sum);")

block("local", "c", """
int *ret_local(void)
{
    int lv = 1;
    return &lv;
}
""", ["int *ret_local(void);"], "sum += *ret_local();")

block("dfree", "c", """
void free_twice(int nn)
{
    char *bf = (char *)malloc(nn);
    free(bf);
    free(bf);
}
""", ["void free_twice(int nn);"], "free_twice(3);", needs=["stdlib"])

block("strbuf", "c", """
void str_buf(void)
{
    char sb[4];
    strcpy(sb, "too long text");
}
""", ["void str_buf(void);"], "str_buf();", needs=["string"])

block("unreach", "c", """
int un_reach(int ur)
{
    int uv = ur + 1;
    return uv;
    uv = 2;
}
""", ["int un_reach(int ur);"], "sum += un_reach(sum);")

block("argdiff", "c", """
int arg_diff(int right_n)
{
    return right_n + 1;
}
""", ["int arg_diff(int left_n);"], "sum += arg_diff(sum);")

block("argnames", "c", """
int arg_names(int first_n, int second_n)
{
    return first_n - second_n;
}
""", ["int arg_names(int second_n, int first_n);"], "sum += arg_names(sum, 2);")

block("shadow", "c", """
int shadow_v(int sh)
{
    int depth = sh;
    if (sh > 1) {
        int depth = 2;
        return depth;
    }
    return depth;
}
""", ["int shadow_v(int sh);"], "sum += shadow_v(sum);")

# ---- C++ only --------------------------------------------------------------------------------------------
block("ctor", "cpp", """
class Counter {
public:
    Counter() { }
    Counter(int start) { cnt = start; }
    int get() const { return cnt; }
private:
    int cnt;
};
//--
int use_counter(void)
{
    Counter ctr;
    return ctr.get();
}
""", ["int use_counter(void);"], "sum += use_counter();")

block("byval", "cpp", """
int str_size(std::string sv)
{
    return (int)sv.size();
}
""", ["int str_size(std::string sv);"], "sum += str_size(\"xy\");", needs=["cppstring"])

block("vec", "cpp", """
int vec_oob(void)
{
    std::vector<int> vec;
    return vec[2];
}
""", ["int vec_oob(void);"], "sum += vec_oob();", needs=["vector"])

block("cast", "cpp", """
int c_cast(void *vp)
{
    int *ip = (int*)vp;
    return *ip;
}
""", ["int c_cast(void *vp);"], "sum += c_cast(&sum);")

block("erase", "cpp", """
void erase_loop(std::vector<int> &items)
{
    std::vector<int>::iterator iter;
    for (iter = items.begin(); iter != items.end(); ++iter) {
        if (*iter == 2) {
            items.erase(iter);
        }
    }
}
""", ["void erase_loop(std::vector<int> &items);"], None, needs=["vector"])

block("virt", "cpp", """
class Base {
public:
    Base() : bv(0) { }
    ~Base() { }
    virtual int val() { return bv; }
    int bv;
};
//--
class Derived : public Base {
public:
    Derived() : dv(new int(1)) { }
    ~Derived() { delete dv; }
    int val() { return *dv; }
    int *dv;
};
//--
int use_virt(void)
{
    Base *bp = new Derived;
    int rv = bp->val();
    delete bp;
    return rv;
}
""", ["int use_virt(void);"], "sum += use_virt();")

# ---- C++ overload sets: 2-3 overloads of one name, DEFINED without prototypes, one call per program ------------
OVL_BODY = {
    "int": ("int dv", ["    return 100 / dv;"]),
    "long": ("long dv", ["    return 1000 / dv;"]),
    "double": ("double dv", ["    int ar[2] = {0, 0};", "    return ar[(int)dv + 2];"]),
    "charp": ("char *dv", ["    return *dv;"]),
}
OVL_ARGS = collections.OrderedDict([("char", "char av = 0;"), ("short", "short av = 0;"), ("int", "int av = 0;"),
                                    ("long", "long av = 0;"), ("float", "float av = 0;"), ("lit0", None)])


def _ovl_rank(arg, par):
    """C++ implicit conversion rank of argument type -> parameter type: 0 exact, 1 promotion, 2 conversion, None"""
    if (arg, par) in (("int", "int"), ("long", "long"), ("lit0", "int")):
        return 0
    if (arg, par) in (("char", "int"), ("short", "int"), ("float", "double")):
        return 1
    if par == "charp":
        return 2 if arg == "lit0" else None
    return 2


def ovl_call_is_unambiguous(arg, pars):
    r = [x for x in (_ovl_rank(arg, p) for p in pars) if x is not None]
    return bool(r) and r.count(min(r)) == 1


for _n in (2, 3):
    for _pars in itertools.combinations(list(OVL_BODY), _n):
        for _arg, _decl in OVL_ARGS.items():
            if not ovl_call_is_unambiguous(_arg, _pars):
                continue        # ill-formed for a C++ compiler: no instance of the quantifier
            _src = []
            for _p in _pars:
                _src.append("\n".join(["int scale(%s)" % OVL_BODY[_p][0], "{"] + OVL_BODY[_p][1] + ["}"]))
            _use = ["int use_scale(void)", "{"] + (["    " + _decl, "    return scale(av);"] if _decl else
                                                     ["    return scale(0);"]) + ["}"]
            _src.append("\n".join(_use))
            block("ovl_%s_%s" % ("".join(x[0] for x in _pars), _arg), "cpp", "\n//--\n".join(_src),
                  ["int use_scale(void);"], "sum += use_scale();", order="last", lean=True)

CBLOCKS = [b for b in BLOCKS.values() if b["lang"] == "c"]
XBLOCKS = [b for b in BLOCKS.values() if b["lang"] == "cpp"]


def make_program(blocks, lang, name):
    """-> rwm.Prog with generator-side structure (chunks with their group, order constraints per group)."""
    needs = set()
    for b in blocks:
        needs |= b["needs"]
    lines, chunks, after = [], [], {"D": [], "P": []}
    count = {"D": 0, "P": 0}

    def add(ls, group):
        a = len(lines) + 1
        lines.extend(ls)
        chunks.append((a, len(lines), group))
        if group:
            count[group] += 1
            return count[group] - 1

    lines.append("/* generated corpus file */")
    for n, inc in (("stdlib", "#include <stdlib.h>"), ("string", "#include <string.h>"),
                   ("cppstring", "#include <string>"), ("vector", "#include <vector>")):
        if n in needs:
            lines.append(inc)
    lines.append("")
    lean = all(b["lean"] for b in blocks)
    add(["struct Pair {", "    int head;", "    int spare;", "};"], None)
    add(["typedef struct Pair pair_t;"], None)
    # the block of forward declarations: every order of it keeps each use after a declaration
    if not lean:
        add(["extern int g_tab[3];"], "P")
    for b in blocks:
        for pr in b["protos"]:
            add([pr], "P")
    add(["int call_all(void);"], "P")
    lines.append("")
    first = True
    for b in blocks:
        ks = []
        for ch in b["chunks"]:
            if not first:
                lines.append("")
            first = False
            ks.append(add(ch, "D"))
        if b["order"] == "chain":
            after["D"] += list(zip(ks, ks[1:]))
        else:
            after["D"] += [(k, ks[-1]) for k in ks[:-1]]
    if not lean:
        lines.append("")
        add(["int g_tab[3];"], "D")
    lines.append("")
    body = ["int call_all(void)", "{", "    int sum = 0;", "    // calls"]
    for b in blocks:
        if b["call"]:
            body.append("    " + b["call"])
    body += ["    return sum;", "}"]
    add(body, "D")
    text = "\n".join(lines) + "\n"
    return rwm.Prog(text, lang, name, chunks=chunks, after=after)


def corpus_generated(tier):
    """simplest first: all single blocks, all pairs, (thorough) all triples; C blocks as .c and as .cpp,
    combinations that contain a C++-only block as .cpp."""
    allb = CBLOCKS + XBLOCKS
    kmax = 2 if tier == "quick" else 3
    for k in range(1, kmax + 1):
        for combo in itertools.combinations(allb, k):
            langs = ["cpp"] if any(b["lang"] == "cpp" for b in combo) else ["c", "cpp"]
            nperm = sum(len(b["chunks"]) for b in combo) + (1 if all(b["lean"] for b in combo) else 2)
            if nperm > 5 or (k > 1 and any(b["lean"] for b in combo)):
                continue
            if k >= 2 and tier == "quick":
                sidx = sum(allb.index(b) for b in combo)
                if sidx % 2:             # quick: every second pair, one language per pair
                    continue
                if langs == ["c", "cpp"]:
                    langs = ["c"] if (sidx % 3) else ["cpp"]
            for lang in langs:
                yield combo, lang, "g_" + "_".join(b["name"] for b in combo) + "." + lang


def variants(p, fams="WBRO"):
    out = []
    if "W" in fams:
        out += list(rwm.rewrites_W(p))
    if "B" in fams:
        out += list(rwm.rewrites_B(p))
    if "R" in fams:
        out += list(rwm.rewrites_R(p))
    if "O" in fams:
        out += list(rwm.rewrites_O(p))
    return out


# ------------------------------------------------------------------------------------------------------------
RE_LINE = re.compile(r"\bline (\d+)\b")
RE_ID = re.compile(r"[A-Za-z_]\w*")


def norm(f):
    """finding -> (id, severity, inconclusive, msg, verbose, ((line, col, info), ...))"""
    return (f["id"], f["severity"], f["inconclusive"], f["msg"], f["verbose"],
            tuple((l[1], l[2], l[3]) for l in f["locs"]))


def map_expected(nf, al):
    """finding of P -> what rewrite(P) must report (names stay the old ones: the observed side is mapped back)."""
    def txt(s):
        def rep(m):
            ls = al.lines.get(int(m.group(1)))
            if not ls:
                return m.group(0)
            return "line %d" % min(ls)
        return RE_LINE.sub(rep, s or "")
    locs = []
    for (l, c, info) in nf[5]:
        r = al.loc(l, c)
        if r is None:
            return None
        locs.append((r[0], r[1], txt(info)))
    return (nf[0], nf[1], nf[2], txt(nf[3]), txt(nf[4]), tuple(locs))


def map_observed(nf, al):
    if not al.inv:
        return nf
    def txt(s):
        return RE_ID.sub(lambda m: al.inv.get(m.group(0), m.group(0)), s or "")
    return (nf[0], nf[1], nf[2], txt(nf[3]), txt(nf[4]), tuple((l, c, txt(i)) for (l, c, i) in nf[5]))


def relaxed_equal(e_old, o, al):
    """second chance for 'line N' fragments when the old line N was split over several new lines."""
    if e_old[:3] != o[:3] or len(e_old[5]) != len(o[5]):
        return False
    def ok(a, b):
        pa, pb = RE_LINE.split(a or ""), RE_LINE.split(b or "")
        if len(pa) != len(pb) or pa[0::2] != pb[0::2]:
            return False
        return all(int(y) in al.lines.get(int(x), ()) for x, y in zip(pa[1::2], pb[1::2]))
    if not ok(e_old[3], o[3]) or not ok(e_old[4], o[4]):
        return False
    for (l, c, i), (l2, c2, i2) in zip(e_old[5], o[5]):
        if al.loc(l, c) != (l2, c2) or not ok(i, i2):
            return False
    return True


def compare(pf, qf, al):
    """pf/qf: normalised findings of P / rewrite(P). -> list of (kind, id, detail)"""
    exp, unm = [], []
    for f in pf:
        e = map_expected(f, al)
        if e is None:
            unm.append(f)
        else:
            exp.append((e, f))
    obs = [map_observed(f, al) for f in qf]
    ce = collections.Counter(e for e, _ in exp)
    co = collections.Counter(obs)
    miss = list((ce - co).elements())
    extra = list((co - ce).elements())
    # relaxed matching on the rest
    back = {}
    for e, f in exp:
        back.setdefault(e, []).append(f)
    still = []
    for e in miss:
        f = back[e][0]
        hit = None
        for o in extra:
            if relaxed_equal(f, o, al):
                hit = o
                break
        if hit is not None:
            extra.remove(hit)
        else:
            still.append(e)
    diffs = []
    for f in unm:
        diffs.append(("unmappable-location", f[0], f))
    ids_extra = collections.Counter(o[0] for o in extra)
    for e in still:
        partner = next((o for o in extra if o[0] == e[0]), None)
        if partner is not None:
            extra.remove(partner)
            what = [n for n, a, b in (("severity", e[1], partner[1]), ("certainty", e[2], partner[2]),
                                      ("message", e[3:5], partner[3:5]),
                                      ("location", [x[:2] for x in e[5]], [x[:2] for x in partner[5]]),
                                      ("path-info", [x[2] for x in e[5]], [x[2] for x in partner[5]])) if a != b]
            diffs.append(("changed-" + "+".join(what), e[0], {"expected": e, "observed": partner}))
        else:
            diffs.append(("lost", e[0], {"expected": e}))
    for o in extra:
        diffs.append(("gained", o[0], {"observed": o}))
    return diffs


def rw_class(rw):
    if rw.fam in ("W", "B", "R"):
        return rw.name.split("@")[0]
    return {"perm-D": "perm-definitions", "perm-P": "perm-forward-declarations",
            "perm-DP": "perm-both"}.get(rw.name[:7].rstrip("-"), "perm")




def cppcheck_xml(args, cwd, timeout=900):
    """run.findings_xml with stderr sent to a file (the XML is written unbuffered; a pipe costs 4x the run time)."""
    import subprocess
    env = dict(os.environ)
    env.pop("CPPCHECK_HOME", None)
    env["LC_ALL"] = "C"
    errf = os.path.join(cwd, "stderr.xml")
    for attempt in range(60):
        with open(errf, "wb") as ef:
            try:
                subprocess.run([build.cppcheck("plain"), "--xml"] + list(args), cwd=cwd, env=env,
                               stdout=subprocess.DEVNULL, stderr=ef, timeout=timeout)
                break
            except subprocess.TimeoutExpired:
                return None
            except OSError:         # binary being relinked by a concurrent build of the same variant
                import time
                time.sleep(1)
    else:
        return None
    try:
        return run.parse_xml(open(errf, "rb").read())
    except Exception:
        return None


def run_files(files, opts):
    """files: {name: text}. -> {name: [normalised findings]} or None"""
    with run.WS({n: t.encode() if isinstance(t, str) else t for n, t in files.items()}) as ws:
        fs = cppcheck_xml(opts + sorted(files), ws.dir)
    if fs is None:
        return None
    out = {n: [] for n in files}
    for f in fs:
        if f["id"].startswith(WHOLE):
            continue
        fn = f["locs"][0][0] if f["locs"] else (f.get("file0") or "")
        fn = os.path.basename(fn)
        out.setdefault(fn if fn in out else "?", []).append(norm(f))
    return out


def prog_from_spec(spec):
    if spec[0] == "g":
        return make_program([BLOCKS[b] for b in spec[1]], spec[2], spec[3])
    txt = open(spec[1]).read()
    if not txt.endswith("\n"):
        txt += "\n"
    return rwm.Prog(txt, spec[2], spec[3])


def specs(tier):
    out = []
    for f in sorted(glob.glob(build.REPO + "/samples/*/bad.c*") + glob.glob(build.REPO + "/samples/*/good.c*")):
        lang = "cpp" if f.endswith(".cpp") else "c"
        out.append(("s", f, lang, "s_" + f.split("/")[-2] + "_" + os.path.basename(f)))
    out += [("g", [b["name"] for b in combo], lang, name) for combo, lang, name in corpus_generated(tier)]
    return out


def is_excluded(fam, d):
    e = EXCLUDE.get(fam, {}).get(d[1])
    return bool(e) and d[0] in e["kinds"]


def diff_key(rw, d):
    return "C05:%s:%s:%s:%s" % (rw.fam, rw_class(rw), d[1], d[0])


def isolated(p, rw, al):
    r1 = run_files({"p." + p.lang: p.text}, OPTS_ISOLATED)
    r2 = run_files({"p." + p.lang: rw.text}, OPTS_ISOLATED)
    if r1 is None or r2 is None:
        return [("xml-unparsable", "-", {})]
    return compare(r1["p." + p.lang], r2["p." + p.lang], al)


def work(job):
    """one batch: build all variant files of some programs, analyse them in ONE run, compare. -> plain data"""
    import time
    speclist, fams, deadline, knownkeys = job
    if time.time() > deadline:
        return None
    progs = []
    files = {}
    for pi, spec in enumerate(speclist):
        try:
            p = prog_from_spec(spec)
        except rwm.LexError as e:
            progs.append((spec, None, str(e)))
            continue
        vs = variants(p, fams)
        progs.append((spec, p, vs))
        files["p%d_o.%s" % (pi, p.lang)] = p.text
        for vi, rw in enumerate(vs):
            files["p%d_v%d.%s" % (pi, vi, p.lang)] = rw.text
    res = run_files(files, OPTS)
    out = {"programs": [], "problems": [], "counters": collections.Counter(), "fam": collections.Counter(),
           "ids": collections.Counter()}
    if res is None:
        out["problems"].append(("harness:xml-unparsable", "batch output unparsable", {"specs": speclist}))
        return out
    if "?" in res:
        out["problems"].append(("harness:unattributed-finding", repr(res["?"][:2]), {"f": res["?"][:5]}))
    confirmed = {k: True for k in knownkeys}
    for pi, (spec, p, vs) in enumerate(progs):
        if p is None:
            out["counters"]["programs_not_lexable_skipped"] += 1
            continue
        pf = res["p%d_o.%s" % (pi, p.lang)]
        rec = {"name": p.name, "findings": sorted(set(f[0] for f in pf)), "rewrites": len(vs), "pairs": []}
        out["counters"]["programs"] += 1
        out["counters"]["programs_with_findings" if pf else "programs_without_findings_vacuous"] += 1
        for f in pf:
            out["ids"][f[0]] += 1
        for vi, rw in enumerate(vs):
            out["fam"][rw.fam] += 1
            art = {"program": p.text, "rewritten": rw.text, "lang": p.lang, "family": rw.fam, "rewrite": rw.name,
                   "name": p.name}
            al = rwm.Align(p, rw)
            if not al.ok:
                out["problems"].append(("harness:rewrite-not-token-preserving",
                                        "%s %s: %s" % (p.name, rw.name, al.why), art))
                continue
            qf = res["p%d_v%d.%s" % (pi, vi, p.lang)]
            rec["pairs"].append(1 if (pf or qf) else 0)
            diffs = [d for d in compare(pf, qf, al)]
            for d in diffs:
                if is_excluded(rw.fam, d):
                    out["counters"]["excluded_by_property_text:%s:%s:%s" % (rw.fam, d[1], d[0])] += 1
            diffs = [d for d in diffs if not is_excluded(rw.fam, d)]
            if not diffs:
                continue
            keys = set(diff_key(rw, d) for d in diffs)
            if not all(confirmed.get(k) for k in keys):
                # confirm by two isolated single-file runs with the default duplicate filter
                d2 = [d for d in isolated(p, rw, al) if not is_excluded(rw.fam, d)]
                if not d2:
                    out["counters"]["batch_only_differences"] += 1
                    continue
                for d in d2:
                    confirmed[diff_key(rw, d)] = True
                diffs = d2
            seen = set()
            for d in diffs:
                k = diff_key(rw, d)
                if k in seen:
                    continue
                seen.add(k)
                a2 = dict(art)
                a2["diffs"] = [list(x) for x in diffs][:8]
                out["problems"].append((k, "%s, rewrite %s/%s: %s %s" % (p.name, rw.fam, rw.name, d[0], d[1]), a2))
        out["programs"].append(rec)
    return out


def main(tier, replay=None):
    import multiprocessing, time
    ctx = Ctx("C05", tier, "exploration", 170 if tier == "quick" else 1700, replay)
    build.build("plain")
    if replay:
        a = replay["artefact"]
        ext = a["lang"]
        print("=== program P (%s)\n%s" % (a.get("name"), a["program"]))
        print("=== rewrite %s/%s\n%s" % (a["family"], a["rewrite"], a["rewritten"]))
        for n, t in (("P", a["program"]), ("rewrite(P)", a["rewritten"])):
            r = run_files({"p." + ext: t}, OPTS_ISOLATED)
            print("=== findings of %s (cppcheck %s p.%s)" % (n, " ".join(OPTS_ISOLATED), ext))
            for f in sorted(r["p." + ext]):
                print("   ", f)
        print("=== expected: the two lists are equal after the rewrite's location / 'line N' / name map")
        print("=== recorded differences:")
        for d in a.get("diffs", []):
            print("   ", d)
        return 0

    fams = os.environ.get("C05_FAMILIES", "WBRO")
    sp = specs(tier)
    lim = int(os.environ.get("C05_LIMIT", "0"))
    if lim:
        sp = sp[:lim]
    knownkeys = [k["key"] for k in ctx.known if k.get("status") == "known"]
    jobs, cur, n = [], [], 0
    for s in sp:
        try:
            p = prog_from_spec(s)
            n += 1 + len(variants(p, fams))
        except rwm.LexError:
            pass
        cur.append(s)
        if n >= BATCH:
            jobs.append((cur, fams, ctx.deadline, knownkeys))
            cur, n = [], 0
    if cur:
        jobs.append((cur, fams, ctx.deadline, knownkeys))
    famcount, ids = collections.Counter(), collections.Counter()
    with multiprocessing.Pool(int(os.environ.get("VERIF_JOBS", "0")) or min(16, os.cpu_count() or 4)) as pool:
        for res in pool.imap(work, jobs):
            if res is None:
                ctx.capped = True
                continue
            famcount.update(res["fam"])
            ids.update(res["ids"])
            for k, v in res["counters"].items():
                ctx.bump(k, v)
            for rec in res["programs"]:
                ctx.count(len(rec["pairs"]))
                nz = sum(rec["pairs"])
                ctx.bump("pairs_with_findings", nz)
                ctx.bump("pairs_without_findings_vacuous", len(rec["pairs"]) - nz)
                if nz:
                    for i, v in enumerate(rec["pairs"]):
                        if v:
                            ctx.distinct("%s#%d" % (rec["name"], i))
                if rec["findings"] and (len(ctx.samples) < 3 or (rec["name"].startswith("s_") and len(ctx.samples) < 5)):
                    ctx.sample({"program": rec["name"], "finding_ids": rec["findings"], "rewrites": rec["rewrites"]})
            for key, what, art in res["problems"]:
                ctx.bump("difference_class:" + key)
                ctx.violation(key, what, art)
    ctx.cov["rewrites_per_family"] = dict(famcount)
    ctx.cov["finding_ids_in_corpus"] = dict(ids)
    ctx.cov["states"] = ctx.cov.get("programs", 0)
    ctx.cov["transitions"] = ctx.evaluations
    ctx.cov["traces_validated_against_impl"] = ctx.evaluations
    ctx.cov["exclusions"] = {f + ":" + i: e["doc"] for f, m in EXCLUDE.items() for i, e in m.items()}
    ctx.assumptions = [
        "the rewrites are meaning preserving: proven per pair on the token level (the rewritten text is lexed again "
        "and must give the same code-token sequence up to the declared permutation / renaming); permutations keep "
        "every use after its declaration (forward declarations at the top of generated files); generated files and "
        "all their R/O variants were compiled once with gcc/g++ -fsyntax-only during development",
        "options: --enable=style --inconclusive, default platform/library; whole-program ids (unusedFunction, "
        "checkersReport) are not enabled / projected out; batch runs use --emit-duplicates, every disagreement is "
        "confirmed by two isolated single-file runs with the default duplicate filter (once per difference class "
        "and batch)",
    ]
    return ctx.finish(
        rule="programs = all combinations of <=%d building blocks (%d C, %d C++-only; <=5 permutable top-level "
             "definitions; each file also has a struct, a typedef, a global and a caller) + the %d files of "
             "/repo/samples; for each program ALL rewrites of W (indent +1/+4/tab, one token per line, join definitions, "
             "CRLF), B (blank / // / /* */ line before each statement boundary, deletion of each blank or comment "
             "line), R (3 total renamings: longer, shorter, case-changed), O (every legal permutation of the top-level "
             "definitions); one evaluation = one (program, rewrite) pair; distinct nontrivial = pairs where at least "
             "one side has a finding"
             % (2 if tier == "quick" else 3, len(CBLOCKS), len(XBLOCKS), len([s for s in sp if s[0] == "s"])))
