"""C28 -- every built-in finding id is discoverable through --errorlist.

Observation closure: the id of every finding observed over a fixed corpus (exhaustive over the corpus, no sampling)
must be listed by `cppcheck --errorlist`; exempt (by the statement) are ids synthesized from library <warn> entries
(`<function>Called`, read from the cfg files actually loaded) and addon ids (no addon is run here).
Corpus, all with --enable=all --inconclusive --xml (thorough: second pass with --check-level=exhaustive and the
snippets once more as C):
  samples/*/*.c*; test/cfg/*.c* with their library and --check-library; test/cli/fuzz-crash, fuzz-crash_c,
  fuzz-timeout (per-batch timeout, crashing / hanging inputs are bisected out and counted, they are not this
  property's business); every code snippet mechanically extracted from the string literals of check("...")-style
  calls in test/test*.cpp (vlib/testsnippets.py), MANY files per cppcheck process; two generated families
  (vlib/c27c28_families.py: multi-severity constructs x literal kinds, and value-dependent checker triggers x
  provenance of the critical value x operand type, as C++ and as C); a hand-made list of preprocessor / tokenizer /
  run-level triggers with their options.
This check is only as strong as its corpus: an id that no corpus input triggers is not judged.
"""
import glob, os, re, time
import xml.etree.ElementTree as ET
from vlib import build, run, testsnippets, c27c28_families
from vlib.core import Ctx, pmap

REPO = build.REPO
BASE = ["-q", "--enable=all", "--inconclusive", "--xml"]

RE_ERR = re.compile(r"<error id=\"([^\"]*)\" severity=\"([^\"]*)\"(?:[^>]*?file0=\"([^\"]*)\")?[^>]*>\s*(?:<location file=\"([^\"]*)\")?")


def _cppcheck(args, cwd, **kw):
    for attempt in range(60):
        try:
            return run.cppcheck(args, cwd, **kw)
        except OSError:          # binary being relinked by a concurrent build
            time.sleep(0.5)
    return run.cppcheck(args, cwd, **kw)


def errorlist_ids():
    with run.WS() as ws:
        r = _cppcheck(["--errorlist"], ws.dir)
    root = ET.fromstring(r.out)
    return sorted(set(e.get("id") for e in root.iter("error")))


def warn_ids(cfgnames):
    """ids `<name>Called` of every <function> with a <warn> child in the given library files."""
    ids = set()
    for n in cfgnames:
        p = os.path.join(build.bindir("plain"), "cfg", n + ".cfg")
        try:
            root = ET.parse(p).getroot()
        except (OSError, ET.ParseError):
            continue
        for fn in root.iter("function"):
            if fn.find("warn") is not None:
                for name in (fn.get("name") or "").split(","):
                    if name.strip():
                        ids.add(name.strip() + "Called")
                        ids.add(name.strip().split("::")[-1] + "Called")    # the id uses the called token only
    return ids


IN_SCOPE = re.compile(r"^lib/(check[a-z0-9_]*|preprocessor|tokenize|tokenlist|templatesimplifier|symboldatabase|valueflow|"
                      r"vf_[a-z0-9_]*|token|errortypes|astutils|programmemory|forwardanalyzer|reverseanalyzer|ctu|clangimport)\.cpp$")
OUT_SCOPE = re.compile(r"^(cli/[a-z0-9_]+|lib/cppcheck|lib/suppressions|lib/importproject|lib/analyzerinfo)\.cpp$")


def producers(ids):
    """Where does the id's string literal occur in the source tree?  -> {id: ('in'|'out'|'unknown', [files])}.
    The statement limits the claim to ids of the built-in checks, preprocessor, tokenizer and symbol database; ids
    whose literal only occurs in the run-level driver (cli/, lib/cppcheck.cpp, lib/suppressions.cpp) are outside it.
    InternalError type names live in lib/errortypes.cpp and are thrown by the tokenizer / symbol database: in scope."""
    texts = {}
    for d in ("lib", "cli"):
        for p in sorted(glob.glob(os.path.join(REPO, d, "*.cpp"))):
            try:
                texts[d + "/" + os.path.basename(p)] = open(p, encoding="utf-8", errors="replace").read()
            except OSError:
                pass
    out = {}
    for i in ids:
        files = [f for f, t in texts.items() if "\"" + i + "\"" in t]
        if any(IN_SCOPE.match(f) for f in files):
            out[i] = ("in", files)
        elif any(OUT_SCOPE.match(f) for f in files):
            out[i] = ("out", files)
        else:
            out[i] = ("unknown", files)
    return out


def observe(args, files, cwd, timeout):
    """-> (ids: {id: first file}, status) ; status in ok / crash / timeout"""
    r = _cppcheck(BASE + args + files, cwd, timeout=timeout)
    ids = {}
    for m in RE_ERR.finditer(r.text_err()):
        ids.setdefault(m.group(1), m.group(4) or m.group(3) or "")
    if r.timed_out:
        return ids, "timeout"
    if r.rc < 0 or not r.text_err().rstrip().endswith("</results>"):
        return ids, "crash rc=%s" % r.rc
    return ids, "ok"


def observe_bisect(args, files, cwd, per_file_s, stats):
    """All ids over `files`; batches that crash or hang are bisected, single offending files are dropped."""
    ids, st = observe(args, files, cwd, 30 + per_file_s * len(files))
    stats["runs"] = stats.get("runs", 0) + 1
    if st == "ok":
        return ids
    if len(files) == 1:
        stats.setdefault("dropped", []).append("%s (%s)" % (files[0], st))
        return ids                      # ids printed before the crash were really reported
    h = len(files) // 2
    a = observe_bisect(args, files[:h], cwd, per_file_s, stats)
    b = observe_bisect(args, files[h:], cwd, per_file_s, stats)
    for k, v in b.items():
        a.setdefault(k, v)
    for k, v in ids.items():
        a.setdefault(k, v)
    return a


CFG_LIB = {"gnu.c": ["--library=posix,gnu"], "kde.cpp": ["--library=kde", "--library=qt"],
           "windows.cpp": ["--platform=win64", "--library=windows"]}


def handmade():
    """(name, files, options, command-line file list)"""
    many = "".join("#ifdef M%02d\nint a%d;\n#endif\n" % (i, i) for i in range(14))
    deep = "int fd(int x){ int y = 0; int *p = 0;\n" + "".join("  if (x == %d) y++;\n" % i for i in range(130)) + \
           "  if (y == 200) { *p = 0; }\n  return y; }\n"
    H = [
        ("error-directive", {"t.c": "#error stop\n"}, []),
        ("error-directive-every-configuration", {"t.c": "#ifdef A\n#error a\n#else\n#error b\n#endif\nint x;\n"}, []),
        ("missing-include", {"t.c": "#include \"nosuch.h\"\n#include <nosys.h>\nint x;\n"}, []),
        ("missing-include-check-config", {"t.c": "#include \"nosuch.h\"\n#include <nosys.h>\nint x;\n"}, ["--check-config"]),
        ("missing-forced-include", {"t.c": "int x;\n"}, ["--include=nosuch.h"]),
        ("unterminated-if", {"t.c": "#if 1\nint x;\n"}, []),
        ("else-without-if", {"t.c": "#else\nint x;\n#endif\n#elif 1\n"}, []),
        ("bad-if-expression", {"t.c": "#if 1 +\nint x;\n#endif\n#if (\n#endif\n#if 1/0\n#endif\n"}, []),
        ("bad-inline-suppression", {"t.c": "// cppcheck-suppress[\nint x;\n// cppcheck-suppress nullPointer\nint y;\n"
                                           "// cppcheck-suppress-begin uninitvar\nint z;\n// cppcheck-suppress-end foo\n"
                                           "// cppcheck-suppress-macro\n"}, ["--inline-suppr"]),
        ("unmatched-suppression", {"t.c": "int x;\n"}, ["--suppress=foo", "--suppress=bar:t.c", "--suppress=*:nosuch.c"]),
        ("too-many-configs", {"t.c": many}, []),
        ("too-many-configs-check-config", {"t.c": many}, ["--check-config"]),
        ("no-valid-configuration", {"t.c": "#ifndef X\n#error need X\n#endif\nint x;\n"}, ["-DY"]),
        ("no-valid-configuration-2", {"t.c": "#ifndef X\n#error need X\n#endif\n#ifdef X\n#error not X\n#endif\nint x;\n"}, []),
        ("purged-configuration", {"t.c": "#ifdef A\n#endif\n#ifdef B\nint b;\n#endif\nint x;\n"}, []),
        ("unknown-macro", {"t.c": "void f() { MACRO(x) { } }\nFOO(a)\nint g() { return 1; }\n"}, []),
        ("unknown-macro-2", {"t.cpp": "class EXPORT A : public B { };\nBEGIN_MAP(x)\nEND_MAP()\nint f() { return UNKNOWN_MACRO(1) 2; }\n"}, []),
        ("include-nested-too-deeply", {"t.c": "#include \"t.c\"\nint x;\n"}, []),
        ("unhandled-char", {"t.c": "int x = 1 \x01 2;\n"}, []),
        ("unhandled-char-in-if", {"t.c": "#if 1 é\n#endif\nint café;\n"}, []),
        ("syntax-error", {"t.c": "int f(int x){ return x +; }\n"}, []),
        ("unbalanced", {"t.c": "void f() { if (x) { }\n", "u.c": "void f() } {\n", "v.c": "void f() { a[ ; }\n",
                        "w.cpp": "template<class T> struct A<T { };\n"}, []),
        ("garbage-template", {"t.cpp": "template <> struct S<>::template f<> { };\nx = a ? : ;\n"}, []),
        ("macro-paste-error", {"t.c": "#define F(x,y) x##y\nint a = F(+,-);\n#define G(x) #\nG(1)\n"}, []),
        ("macro-wrong-arity", {"t.c": "#define F(x,y) x+y\nint a = F(1);\nint b = F(1,2,3);\n#define H(x\nH(1)\n"}, []),
        ("define-redefined-and-pragma", {"t.c": "#define A 1\n#define A 2\n#pragma once\n#pragma asm\n mov\n#pragma endasm\n"
                                                "#line foo\n#unknown directive\n#include\n#include <\n#define\n#undef\n"}, []),
        ("invalid-user-define", {"t.c": "#if A\nint x;\n#endif\nint y = A;\n"}, ["-DA=("]),
        ("user-undef", {"t.c": "#ifdef A\nint x;\n#endif\n"}, ["-UA", "-DB"]),
        ("branch-limit", {"t.c": deep}, []),
        ("odr", {"o1.cpp": "struct A { int x; };\nint f(A*a){return a->x;}\n", "o2.cpp": "struct A { char x; int y; };\nint g(A*a){return a->y;}\n"}, []),
        ("ctu", {"c1.c": "void g(int *p);\nvoid f(void){ g(0); }\n", "c2.c": "void g(int *p){ *p = 1; }\n"}, []),
        ("check-library", {"t.c": "void f(void){ char *p = foo_alloc(3); bar(p); baz(); }\nint g(void){ qux(1); }\n"},
         ["--check-library"]),
        ("c-cpp-keywords", {"t.c": "int class = 1; int new(int delete) { return delete; }\n",
                            "t.cpp": "void f() { asm(\"nop\"); goto *p; int a[] = { [1] = 2 }; }\n"}, []),
        ("markup-and-other-extensions", {"t.qml": "import QtQuick 2.0\nItem { function f() { } }\n", "t.h": "struct X { int a; };\n",
                                         "t.txt": "not code\n"}, ["--library=qt"]),
        ("non-utf8-and-nul", {"t.c": b"int x; // \xff\xfe\n char *s = \"\xc0\x80\";\n\x00 int y;\n"}, []),
        ("bom", {"t.c": b"\xef\xbb\xbfint x;\n", "u.c": b"\xff\xfei\x00n\x00t\x00 \x00x\x00;\x00\n\x00", "e.c": b""}, []),
        ("std-and-platform", {"t.c": "void f(){ char c = 'ab'; long l = 2147483648; int a[2]; a[2] = (int)l + c; }\n"},
         ["--std=c89", "--platform=avr8"]),
        ("safety-and-premium-off", {"t.cpp": "class C { int *p; public: C() {} ~C() { delete p; } };\n"}, ["--safety"]),
    ]
    out = []
    for name, files, opts in H:
        cl = sorted(f for f in files if not f.endswith(".h") or name.startswith("markup"))
        out.append((name, files, opts, cl))
    return out


def main(tier, replay=None):
    ctx = Ctx("C28", tier, "model_checking", 900 if tier == "quick" else 2400, replay)
    build.build("plain")
    listed = set(errorlist_ids())
    if replay:
        a = replay["artefact"]
        print("id %s  first seen in %s (corpus part %s, options %s)" % (a["id"], a["file"], a["part"], " ".join(a["options"])))
        with run.WS() as ws:
            names = []
            for n, c in (a.get("sources") or {}).items():
                ws.write(n, c)
                names.append(n)
            if not names:
                names = [a["file"]]
            ids, st = observe(a["options"][len(BASE):], sorted(n for n in names if not n.endswith(".h")), ws.dir, 300)
        print("expected: every reported id is listed by --errorlist (or produced by a library <warn> entry)")
        print("observed now: run %s, id reported: %s, listed by --errorlist: %s" % (st, a["id"] in ids, a["id"] in listed))
        return 1 if a["id"] in ids and a["id"] not in listed else 0
    passes = [[]] if tier == "quick" else [[], ["--check-level=exhaustive"]]
    snippets = testsnippets.extract()
    observed = {}        # id -> (part, file, options)
    stats = {}
    parts = {}
    loaded_cfgs = {"std"}
    with run.WS() as ws:
        for i, (origin, code) in enumerate(snippets):
            ws.write("s%05d.cpp" % i, code)
            if tier == "thorough":
                ws.write("c%05d.c" % i, code)
        tasks = []
        # samples
        tasks.append(("samples", [], sorted(glob.glob(os.path.join(REPO, "samples", "*", "*.c*"))), "/", 5))
        # test/cfg with library
        for p in sorted(glob.glob(os.path.join(REPO, "test", "cfg", "*.c*"))):
            n = os.path.basename(p)
            lib = CFG_LIB.get(n) or ["--library=" + n.split(".")[0]]
            for l in lib:
                if l.startswith("--library="):
                    loaded_cfgs.update(l[10:].split(","))
            tasks.append(("test/cfg", lib + ["--check-library"], [p], "/", 300))
            tasks.append(("test/cfg", lib + ["--inline-suppr"], [p], "/", 300))
        # fuzz corpora
        for d, lang in (("fuzz-crash", "c++"), ("fuzz-crash_c", "c"), ("fuzz-timeout", "c++")):
            fl = sorted(glob.glob(os.path.join(REPO, "test", "cli", d, "*")))
            for i in range(0, len(fl), 20):
                tasks.append(("test/cli/" + d, ["--language=" + lang], fl[i:i + 20], "/", 5))
        # snippets, many files per process
        per = 300
        names = ["s%05d.cpp" % i for i in range(len(snippets))]
        for i in range(0, len(names), per):
            tasks.append(("snippets", [], names[i:i + per], ws.dir, 2))
        if tier == "thorough":
            cn = ["c%05d.c" % i for i in range(len(snippets))]
            for i in range(0, len(cn), per):
                tasks.append(("snippets-as-C", [], cn[i:i + per], ws.dir, 2))
        # generated families: multi-severity constructs x literal kinds, value-dependent triggers x provenance x type
        for fam, gen in (("multi-severity", c27c28_families.multi_severity_files), ("provenance", c27c28_families.provenance_files)):
            for lang in ("cpp", "c"):
                gf = gen(lang)
                for n, c in gf.items():
                    ws.write(os.path.join("gen", n), c)
                gn = sorted(gf)
                for i in range(0, len(gn), 24):
                    tasks.append(("generated:" + fam, [], gn[i:i + 24], os.path.join(ws.dir, "gen"), 20))
        # handmade
        for name, files, opts, cl in handmade():
            for f, c in files.items():
                ws.write(os.path.join("hm", name, f), c)
            tasks.append(("handmade:" + name, opts, cl, os.path.join(ws.dir, "hm", name), 20))
        alltasks = [(t, extra) for extra in passes for t in tasks]
        # long-running ones first so the pool drains evenly
        order = sorted(range(len(alltasks)), key=lambda i: -alltasks[i][0][4] * len(alltasks[i][0][2]))

        def work(i):
            (part, args, files, cwd, pf), extra = alltasks[i]
            if ctx.expired():
                return i, None, {}
            st = {}
            ids = observe_bisect(args + extra, files, cwd, pf, st)
            return i, ids, st
        for i, ids, st in pmap(work, order):
            (part, args, files, cwd, pf), extra = alltasks[i]
            if ids is None:
                continue
            ctx.count(len(files))
            pk = part.split(":")[0]
            parts[pk] = parts.get(pk, 0) + len(files)
            stats["runs"] = stats.get("runs", 0) + st.get("runs", 0)
            stats.setdefault("dropped", []).extend(st.get("dropped", []))
            if not ids or set(ids) <= {"checkersReport"}:
                ctx.bump("vacuous_inputs_or_batches_without_finding")
            for k, f in ids.items():
                observed.setdefault(k, (part, f, args + extra))
    exempt_ids = warn_ids(sorted(loaded_cfgs))
    outside = sorted(k for k in observed if k not in listed)
    exempted = [k for k in outside if k in exempt_ids]
    prod = producers([k for k in outside if k not in exempt_ids])
    runlevel = {k: v[1] for k, v in prod.items() if v[0] == "out"}
    for k in outside:
        if k in exempt_ids or k in runlevel:
            continue
        part, f, opts = observed[k]
        sources = None
        m = re.match(r"^[sc](\d{5})\.c(pp)?$", f or "")
        if m:
            sources = {f: snippets[int(m.group(1))][1]}
        elif part.startswith("generated:"):
            gen = c27c28_families.multi_severity_files if "multi" in part else c27c28_families.provenance_files
            sources = {f: gen("cpp" if f.endswith(".cpp") else "c").get(f, "")}
        elif part.startswith("handmade:"):
            sources = {n: (c.decode("latin-1") if isinstance(c, bytes) else c)
                       for name, files, o, cl in handmade() if name == part[9:] for n, c in files.items()}
        ctx.violation("id:" + k, "finding id '%s' was reported (first for %s, corpus part %s, options %s) but is not listed "
                      "by --errorlist" % (k, f, part, " ".join(BASE + opts)),
                      {"id": k, "file": f, "part": part, "options": BASE + opts, "sources": sources})
    for k in sorted(observed):
        ctx.distinct("id:" + k)
    ctx.cov.update({
        "errorlist_ids": len(listed),
        "observed_ids": len(observed),
        "errorlist_ids_observed": len([k for k in observed if k in listed]),
        "errorlist_ids_never_triggered_by_the_corpus": sorted(listed - set(observed)),
        "observed_ids_outside_errorlist": outside,
        "observed_ids_exempt_library_warn": exempted,
        "observed_ids_outside_errorlist_but_run_level_producer_not_judged": runlevel,
        "observed_ids_outside_errorlist_judged": {k: v[1] for k, v in prod.items() if v[0] != "out"},
        "inputs_by_corpus_part": parts,
        "snippets_extracted": len(snippets),
        "process_runs": stats.get("runs", 0),
        "inputs_dropped_crash_or_timeout": stats.get("dropped", [])[:60],
        "inputs_dropped_count": len(stats.get("dropped", [])),
        "passes": [" ".join(BASE + p) for p in passes],
    })
    for k in list(sorted(observed))[::max(1, len(observed) // 6)][:6]:
        ctx.sample({"id": k, "first_seen": observed[k][1], "part": observed[k][0], "listed": k in listed})
    ctx.assumptions = [
        "library <warn> ids are `<function name>Called` for every <function> with a <warn> child in the cfg files loaded by "
        "some run (std + every --library used); no addon is run, so no addon id can occur",
        "ids are scraped from the --xml stream with a regular expression so that findings printed before a crash still count",
        "producer of an unlisted id = source files containing its string literal: only ids whose literal occurs solely in the "
        "run-level driver (cli/*.cpp, lib/cppcheck.cpp, lib/suppressions.cpp, ...) are left unjudged, because the statement "
        "limits the claim to built-in checks, preprocessor, tokenizer and symbol database (ValueFlow counted with the tokenizer)",
        "the claim is judged only for ids the corpus triggers; the list of never-triggered errorlist ids is in the evidence",
    ]
    return ctx.finish(
        rule="exhaustive over a fixed corpus: samples (all files), test/cfg/*.c* (with library; once with --check-library, "
             "once with --inline-suppr), test/cli/fuzz-crash|fuzz-crash_c|fuzz-timeout (20 files per process, crashing or "
             "hanging inputs bisected out), every snippet extracted from test/test*.cpp string literals (300 files per "
             "process%s), two generated families as C++ and C (construct x literal-kind alphabet incl. all pairs: %d functions; "
             "value-dependent trigger x value provenance x operand type: %d functions), %d hand-made preprocessor/tokenizer/run-level triggers; options %s%s; evaluations = input files "
             "analysed; distinct/nontrivial = distinct finding ids observed.  THE CHECK IS ONLY AS STRONG AS THIS CORPUS: "
             "ids no input triggers are not judged"
             % ("; thorough: also as .c" if tier == "thorough" else "",
                sum(v.count("\nlong ") for l in ("cpp", "c") for v in c27c28_families.multi_severity_files(l).values()),
                sum(v.count("\nlong ") + v.count("\nstatic long ") for l in ("cpp", "c")
                    for v in c27c28_families.provenance_files(l).values()),
                len(handmade()), " ".join(BASE),
                "" if tier == "quick" else " and a second pass with --check-level=exhaustive"))
