"""C34 -- addon results are relayed faithfully.

A scripted addon (native/addon_stub.c, configured by a .json with "executable") prints an enumerated output and exits
with an enumerated status, both for the per-file invocation and for the whole-program (ctu) invocation.  Every output of
the bounded space is run through the real binary and judged by vlib/ref_addonrelay.py.
"""
import itertools, json, os, subprocess, sys, time
from vlib import build, run
from vlib import ref_addonrelay as R
from vlib.core import Ctx, pmap

SRC = {"t1.c": "void f1(void)\n{\n  int x = 0;%s\n}\n", "t2.c": "void f2(void)\n{\n  int y = 0;%s\n}\n"}
FILES = ["t1.c", "t2.c"]
EXECUTORS = {"single": [], "thread": ["-j2", "--executor=thread"], "process": ["-j2", "--executor=process"]}
OWN_PREFIX = ("stub-",)


def stub():
    src = os.path.join(build.ROOT, "native", "addon_stub.c")
    outd = os.path.join(build.BUILD, "harness")
    os.makedirs(outd, exist_ok=True)
    exe = os.path.join(outd, "addon_stub")
    if not os.path.exists(exe) or os.path.getmtime(exe) < os.path.getmtime(src):
        tmp = exe + ".tmp%d" % os.getpid()
        if subprocess.call(["gcc", "-O1", "-o", tmp, src]) != 0:
            sys.stderr.write("BUILD-ERROR: addon_stub\n")
            raise SystemExit(2)
        os.replace(tmp, exe)
    return exe


# ------------------------------------------------------------------------------------------------ one case
class Case:
    """file_lines / ctu_lines: lists of ref Line; rc: (file_rc, ctu_rc); cfg: enable, suppr, bd, executor, variant."""

    def __init__(self, file_lines=(), ctu_lines=(), rc=(0, 0), enable="all", suppr="none", bd=False, executor="single",
                 variant="plain", group=""):
        self.file_lines, self.ctu_lines, self.rc = list(file_lines), list(ctu_lines), tuple(rc)
        self.enable, self.suppr, self.bd, self.executor, self.variant, self.group = enable, suppr, bd, executor, variant, group
        # process creation is the cost: one source file unless an executor is exercised, and the whole-program invocation
        # only when the case says something about it (ctu output / exit status, or a summary to forward)
        self.files = FILES if (executor != "single" or group.startswith("config")) else FILES[:1]
        self.ctu = bool(self.ctu_lines) or self.rc[1] != 0 or any(l.summary is not None for l in self.file_lines)

    def ident(self):
        return "%s|%s|%s|rc=%s|en=%s|su=%s|bd=%s|ex=%s|%s" % (
            self.group, "+".join(l.name for l in self.file_lines), "+".join(l.name for l in self.ctu_lines), self.rc,
            self.enable, self.suppr, self.bd, self.executor, self.variant)

    def suppressed_ids(self):
        """The suppression always targets the ids of the judged well-formed results of the output."""
        if self.suppr == "none":
            return []
        lines = self.file_lines if self.suppr == "inline" else self.file_lines + self.ctu_lines
        ids = []
        for l in lines:
            if l.cat == "result" and l.result["severity"] in R.JUDGED and l.result["id"] not in ids and len(l.result["id"]) > 5 \
                    and len(l.result["locs"]) == 1 and l.result["locs"][0][1] == 3:
                ids.append(l.result["id"])
        return ids[:1]

    def artefact(self):
        return {"file_out": [l.text if len(l.text) < 2000 else l.name for l in self.file_lines],
                "ctu_out": [l.text if len(l.text) < 2000 else l.name for l in self.ctu_lines],
                "file_lines": [l.name for l in self.file_lines], "ctu_lines": [l.name for l in self.ctu_lines],
                "rc": list(self.rc), "enable": self.enable, "suppr": self.suppr, "bd": self.bd, "executor": self.executor,
                "variant": self.variant, "group": self.group}


def lookup_lines(names):
    byname = {}
    for l in R.alphabet() + R.field_product() + R.wrong_kind_lines():
        byname.setdefault(l.name, l)
    return [byname[n] for n in names]


def case_from_artefact(a):
    return Case(lookup_lines(a["file_lines"]), lookup_lines(a["ctu_lines"]), a["rc"], a["enable"], a["suppr"], a["bd"],
                a["executor"], a["variant"], a.get("group", ""))


def run_case(c, stub_exe):
    """run_case1, repeated when the binary is momentarily not executable (another check relinking the shared variant)."""
    for attempt in range(30):
        try:
            return run_case1(c, stub_exe)
        except (PermissionError, FileNotFoundError, OSError) as ex:
            if attempt == 29:
                raise
            time.sleep(2)
            build.build(c.variant)


def run_case1(c, stub_exe):
    """-> list of phases [(phase name, findings | None, Res, log lines, ctu.seen lines)]"""
    sup = c.suppressed_ids()
    inline = " // cppcheck-suppress " + sup[0] if (c.suppr == "inline" and sup) else ""
    files = {n: SRC[n] % inline for n in c.files}
    files["stub.json"] = json.dumps({"script": "stub.py", "executable": stub_exe, "ctu": c.ctu})
    files["script/file.out"] = "".join(l.text + "\n" for l in c.file_lines)
    files["script/ctu.out"] = "".join(l.text.replace("@FILE@", FILES[0]) + "\n" for l in c.ctu_lines)
    files["script/file.rc"] = "%d\n" % c.rc[0]
    files["script/ctu.rc"] = "%d\n" % c.rc[1]
    args = ["-q", "--addon=stub.json"] + EXECUTORS[c.executor]
    if c.enable == "all":
        args.append("--enable=all")
    if c.suppr == "global" and sup:
        args.append("--suppress=" + sup[0])
    if c.suppr == "inline":
        args.append("--inline-suppr")
    out = []
    with run.WS(files) as ws:
        env = {"VERIF_ADDON_DIR": ws.path("script"), "ASAN_OPTIONS": "detect_leaks=0"}
        phases = ["nobd"]
        if c.bd:
            os.makedirs(ws.path("bd"))
            args.append("--cppcheck-build-dir=bd")
            phases = ["bd-fresh", "bd-cached"]
        for ph in phases:
            for f in ("log", "ctu.seen"):
                ws.remove("script/" + f)
            fs, r = run.findings_xml(args + c.files, ws.dir, variant=c.variant, env=env, timeout=120 if c.variant == "plain" else 400)
            log = ws.read("script/log").splitlines() if os.path.exists(ws.path("script/log")) else []
            seen = ws.read("script/ctu.seen").splitlines() if os.path.exists(ws.path("script/ctu.seen")) else []
            out.append((ph, fs, r, log, seen))
    return out


def crashed(r):
    t = r.text_err()
    if r.timed_out:
        return "hang (timeout)"
    if r.rc < 0:
        return "killed by signal %d" % -r.rc
    if r.rc in (134, 139):
        return "exit status %d" % r.rc
    if "Sanitizer" in t or "runtime error:" in t:
        return "sanitizer report"
    if "terminate called" in t:
        return "terminate called"
    return None


def cats(lines):
    return "+".join(sorted({l.cat for l in lines})) or "none"


def judge(ctx, c, phases):
    sup = c.suppressed_ids()
    ef = R.expect(c.file_lines, c.rc[0], c.files, c.enable == "all", sup)
    ec = R.expect(c.ctu_lines, c.rc[1], [FILES[0]], c.enable == "all", sup if c.suppr == "global" else [])
    must = ef["must"] | ec["must"]
    may = ef["may"] | ec["may"]
    disabled = ef["disabled"] | ec["disabled"]
    forbidden = (ef["forbidden"] | ec["forbidden"]) - must
    wild = ef["wild"] | ec["wild"]
    anomalous = ef["anomalous"] or ec["anomalous"]
    bad_stage = "ctu" if (ec["anomalous"] and not ef["anomalous"]) else "file" if (ef["anomalous"] and not ec["anomalous"]) else "file+ctu" if anomalous else "-"
    bad_cats = cats([l for l in c.file_lines + c.ctu_lines if l.cat in R.ANOMALOUS]) + ("+exit" if c.rc != (0, 0) else "")
    cfgkey = "executor=%s" % c.executor
    for ph, fs, r, log, seen in phases:
        ctx.count()
        art = dict(c.artefact(), phase=ph)

        def viol(kind, what, minimal):
            ctx.violation("%s:%s" % (kind, minimal), "%s [%s, phase %s] %s" % (kind, c.ident(), ph, what), art)

        cr = crashed(r)
        if cr or fs is None:
            # minimal class: a malformed result object in the stage that has one, otherwise all anomalous categories
            stage_lines = c.ctu_lines if bad_stage == "ctu" else c.file_lines if bad_stage == "file" else c.file_lines + c.ctu_lines
            mincat = "badobject" if any(l.cat == "badobject" for l in stage_lines) and c.rc == (0, 0) else bad_cats
            viol("crash", "%s; stderr tail: %s" % (cr or "report is not parsable XML", r.text_err()[-400:]),
                 "%s-stage:%s" % (bad_stage, mincat))
            continue
        own = [f for f in fs if f["id"].startswith(OWN_PREFIX) and f["id"] not in wild]
        internal = [f for f in fs if f["id"] == "internalError"]
        seenk = {}
        for f in own:
            k = (f["id"], f["severity"], f["msg"], tuple(sorted(f["locs"])))
            seenk[k] = seenk.get(k, 0) + 1
        for k, n in seenk.items():
            if k in forbidden:
                viol("suppressed-but-reported", "%s" % (k[:2],), "suppr=%s:%s:%s" % (c.suppr, cfgkey, ph))
            elif k in disabled:
                ctx.bump("disabled_severity_reported(not judged)")
            elif k not in must and k not in may:
                viol("not-as-given", "reported %s, which no result line of the addon output describes" % (k,), "%s:%s" % (k[0], ph))
            if n > 1:
                viol("reported-twice", "%s x%d" % (k[:2], n), "%s:%s:%s" % (cfgkey, ph, "bd" if c.bd else "nobd"))
        missing = [k for k in must if k not in seenk]
        if missing and not (anomalous and internal):
            viol("not-relayed", "%d result(s) missing, e.g. %s; internalError findings: %d" % (len(missing), (missing[0][:2] + missing[0][3:]), len(internal)),
                 "%s:%s:%s:anomalous=%s" % (cfgkey, ph, missing[0][1], bad_cats if anomalous else "no"))
        per_file = {}
        for f in internal:
            loc = f["locs"][0][0] if f["locs"] else ""
            per_file[loc] = per_file.get(loc, 0) + 1
        if any(n > 1 for n in per_file.values()):
            viol("internalError-repeated", str(per_file), "%s:%s" % (cfgkey, ph))
        if internal and not anomalous:
            viol("internalError-on-wellformed-output", internal[0]["msg"][:200], "%s:%s" % (cfgkey, ph))
        if internal:
            ctx.bump("runs_with_internalError")
        # summaries reach the whole-program invocation
        if ef["summaries"] and not ef["anomalous"]:
            got = []
            for s in seen:
                try:
                    got.append(json.loads(s))
                except ValueError:
                    pass
            for s in ef["summaries"]:
                n = sum(1 for g in got if g == s)
                if n < len(c.files):
                    viol("summary-not-forwarded", "summary %s seen %d times in the .ctu-info given to the whole-program invocation "
                         "(expected once per file = %d); log=%s" % (s, n, len(c.files), log[-3:]), "%s:%s" % (cfgkey, ph))
            ctx.bump("runs_with_summary_checked")
        if must:
            ctx.bump("runs_with_relayed_finding_demanded")
        elif not anomalous and not ef["summaries"]:
            ctx.bump("runs_vacuous(nothing demanded beyond no-crash)")
    ctx.distinct(c.ident())


# ------------------------------------------------------------------------------------------------ enumeration
def cases(tier):
    A = R.alphabet()
    e1, e0 = A[0], A[1]
    v2 = R.valid("e2", "error", line=1, col=1)
    S = R.summary_line("s1")
    bad_linenr = next(l for l in A if l.name == "F:linenr=wrong")
    nonjson = next(l for l in A if l.name == "NONJSON")
    interesting = [l for l in A if l.cat != "result" or l.name in ("LONGVALID", "LINEMAXINT")]
    thorough = tier == "thorough"
    # 1. every single-line output, file stage; asan for everything that is not a plain well-formed result
    for l in A:
        yield Case([l], group="single")
    percat = {}
    for l in interesting:                      # quick: two kinds of every category + the 100 KiB lines under ASan/UBSan
        percat.setdefault(l.cat, []).append(l)
    asan_quick = [l for ls in percat.values() for l in ls[:2]] + [l for l in interesting if l.name.startswith("LONG")]
    for l in (A if thorough else [l for l in interesting if l in asan_quick]):
        yield Case([l], variant="asan", group="single-asan")
    # 2. all severities at once x enable
    for en in ("none", "all"):
        yield Case(A[:10], enable=en, group="severities")
        for l in A[:10]:
            yield Case([l], enable=en, group="severity")
    # 3. two-line outputs: a valid result before / after every kind
    for l in (A if thorough else interesting):
        yield Case([v2, l], group="pair")
        yield Case([l, v2], group="pair")
    # 4. exit status
    for rc in (1, 139):
        for out in ([], [e0], [nonjson], [S], [bad_linenr]):
            yield Case(out, rc=(rc, 0), group="exit")
            yield Case([], out, rc=(0, rc), group="exit-ctu")
        yield Case([e0], rc=(rc, 0), variant="asan", group="exit-asan")
    # 5. whole-program invocation: every single-line output
    for l in A:
        yield Case([], [l], group="ctu-single")
    for l in A:
        if l.cat in R.ANOMALOUS and (thorough or l.name in ("F:linenr=wrong", "NONJSON", "TRUNC")):
            yield Case([], [l], variant="asan", group="ctu-single-asan")
    # 6. configuration product on representative outputs
    reps = [[e0, e1, S], [bad_linenr, e0], [e1, nonjson]]
    reps_ctu = [([e1], [e0]), ([], [bad_linenr])]
    for en, su, bd, ex in itertools.product(("none", "all"), ("none", "global", "inline"), (False, True), EXECUTORS):
        for out in (reps if tier == "thorough" else reps[:1]):
            yield Case(out, enable=en, suppr=su, bd=bd, executor=ex, group="config")
    for bd, ex in itertools.product((False, True), EXECUTORS):
        for out in reps[1:]:
            yield Case(out, bd=bd, executor=ex, group="config")
        for fo, co in reps_ctu:
            yield Case(fo, co, bd=bd, executor=ex, group="config-ctu")
        yield Case([S], [e0], bd=bd, executor=ex, group="config-summary")
    if tier != "thorough":
        return
    # ---- thorough ----
    for l in R.field_product():
        yield Case([l], group="field-product")
    for l in R.wrong_kind_lines():
        yield Case([l], group="wrong-kind")
        yield Case([l], variant="asan", group="wrong-kind-asan")
        yield Case([], [l], group="wrong-kind-ctu")
    for l in A:
        yield Case([v2, l], variant="asan", group="pair-asan")
        yield Case([l, v2], variant="asan", group="pair-asan")
    for l in A:
        for en, su, bd, ex in itertools.product(("none", "all"), ("none", "global", "inline"), (False, True), EXECUTORS):
            yield Case([l], enable=en, suppr=su, bd=bd, executor=ex, group="config-all")
    for a, b in itertools.product(A, A):
        if a is not b:
            yield Case([a, b], group="pair-all")
    for a, b in itertools.product(A, A):
        if a is not b:
            yield Case([], [a, b], group="ctu-pair-all")


def main(tier, replay=None):
    ctx = Ctx("C34", tier, "model_checking", 600 if tier == "quick" else 1700, replay)
    build.build("plain")
    build.build("asan")
    exe = stub()
    if replay:
        c = case_from_artefact(replay["artefact"])
        print("case:", c.ident())
        print("file.out:", [l.text[:200] for l in c.file_lines], "exit", c.rc[0])
        print("ctu.out: ", [l.text[:200] for l in c.ctu_lines], "exit", c.rc[1])
        sup = c.suppressed_ids()
        ef = R.expect(c.file_lines, c.rc[0], c.files, c.enable == "all", sup)
        ec = R.expect(c.ctu_lines, c.rc[1], [FILES[0]], c.enable == "all", sup if c.suppr == "global" else [])
        print("expected: no crash; relayed findings that must appear:")
        for k in sorted(ef["must"] | ec["must"]):
            print("   ", k[:2], k[3], k[2][:80])
        print("   anomalous output (internalError instead is acceptable):", ef["anomalous"] or ec["anomalous"],
              "| suppressed ids:", sup, "| summaries to forward:", ef["summaries"])
        for ph, fs, r, log, seen in run_case(c, exe):
            print("--- phase %s: exit %s %s" % (ph, r.rc, crashed(r) or ""))
            for f in fs or []:
                if f["id"].startswith(OWN_PREFIX) or f["id"] == "internalError":
                    print("    observed:", run.fshort(f)[:200])
            if fs is None or crashed(r):
                print("    stderr:", r.text_err()[-1200:])
            print("    addon invocations:", log, "| ctu-info lines seen:", seen[:6])
        return 0
    allc = list(cases(tier))
    if os.environ.get("VERIF_C34_GROUPS"):             # development aid: restrict to some case groups
        allc = [c for c in allc if c.group in os.environ["VERIF_C34_GROUPS"].split(",")]
    seen_id = set()
    uniq = []
    for c in allc:
        if c.ident().split("|", 1)[1] not in seen_id:
            seen_id.add(c.ident().split("|", 1)[1])
            uniq.append(c)
    groups = {}

    def work(c):
        if ctx.expired():
            return c, None
        return c, run_case(c, exe)
    for c, phases in pmap(work, uniq):
        if phases is None:
            continue
        groups[c.group] = groups.get(c.group, 0) + 1
        judge(ctx, c, phases)
    ctx.cov.update({"states": len(ctx._distinct), "transitions": ctx.evaluations, "traces_validated_against_impl": ctx.evaluations,
                    "cases_by_group": groups, "line_kinds": len(R.alphabet()), "cases_enumerated": len(uniq)})
    ctx.samples = [{"file.out": [uniq[0].file_lines[0].text], "expected": "stub-e1 style at t1.c:3:5 and t2.c:3:5, each once"},
                   {"ctu.out": ['{"file":"t1.c","linenr":"x",...}'], "expected": "line skipped or one internalError, never a crash"}]
    ctx.assumptions = ["reference = vlib/ref_addonrelay.py (protocol of addons/cppcheckdata.py reportError/reportSummary)",
                       "severities debug/none/internal/unknown and objects without a location are not judged beyond 'no crash'",
                       "suppression x executor x build-dir product is run on per-file results; whole-program results only with global suppression"]
    return ctx.finish(
        rule="outputs of <= 2 lines over %d line kinds (result objects with each field valid/missing/wrong type, loc arrays with 0-2 entries "
             "and faults, all 10 severities, cwe/hash, summary, metric, empty, Checking, non-JSON, array, scalar, truncated/invalid JSON, 100 KiB "
             "lines, odd line numbers) for the per-file and for the whole-program invocation x exit status {0,1,139} x --enable {none, all} x "
             "suppression {none, --suppress, inline} x build dir {no, fresh, cached} x executor {single, thread, process}; quick = all "
             "single-line outputs (asan variant for two kinds of every not plainly well-formed category and the 100 KiB lines), pairs of a valid result with every such kind, full "
             "configuration product on one representative output (two results + summary) and build dir x executor on two anomalous ones; thorough adds "
             "the 3^7 field product, all ordered pairs and the configuration product on every line kind. distinct = (output, exit status, "
             "configuration); vacuous runs (nothing demanded beyond no-crash) are counted separately" % len(R.alphabet()))
