"""C23 -- suppressions hide exactly the matching findings.

Bounded-exhaustive enumeration against the reference model vlib/ref_suppress.py (written from manual.md and the
header comment of pathmatch.h):

  A. the full product  id pattern x file pattern x line x symbol  for three target findings (zerodiv in a source file,
     uninitvar with a symbol, arrayIndexOutOfBounds in a header), delivered through --suppress=, --suppressions-list
     (with '#'/'//' comments, blank lines, CRLF) and --suppress-xml, with the analysed files given by relative and by
     absolute path.  Suppressions whose file pattern names one 'cell' (vlib/supcells.py) cannot touch other cells, so 48
     of them are evaluated by ONE run; suppressions without such a pattern (no file, '*.c', '*', '**', 't', ...) are
     batched the same way when a line number or a symbol name confines them (cells shifted to disjoint line ranges),
     the rest and every id with '?' (which makes the command line fail) get a run of their own.
  B. every inline form of the manual (same line, line before, before with blank/comment lines between, [a,b],
     symbolName=, trailing comments, the '{' special case, begin/end blocks incl. nested and interleaved ones, -file,
     -macro, suppressions inside a header), each in its own function / file, all analysed by one run per group.
  B2. every bracket list [e1, e2, e3] of length 1..3 whose elements independently take an id from {zerodiv, uninitvar, *}
     and a symbolName from {none, matching, glob, wrong}, in every order, in the plain, -begin/-end, -macro, -file forms
     and in a header, on a line carrying a finding without symbol and a finding with one.
  C. --exitcode-suppress / --exitcode-suppressions entries never hide.
  D. syntactically invalid suppressions never hide anything silently.

Oracle: reported set == findings of the same run without suppressions minus those the reference hides; cases the
documents do not decide (reference answers None) are left unconstrained and counted."""
import collections, itertools, os, re, time
from vlib import build, run, supcells as sc, ref_suppress as ref
from vlib.core import Ctx, pmap, sha

NCELL = 48
CHANNELS = ("cmd", "list", "xml")


# ================================================================================================ part A: cells
def cell_workspace(n, shifted=False):
    files = {}
    for i, t in enumerate(sc.TAGS[:n]):
        files.update(sc.cell_files(t, shift=sc.SHIFT * i if shifted else 0))
    return files


def run_cells(n, absolute, channel, specs, opt="--suppress", extra=(), shifted=False):
    """specs: list of (target, idc, filec, linec, symc, tag).  One run of the real binary.
    -> dict(reported, res, sups (reference objects parsed from the very text cppcheck got), cwd, texts, args)"""
    files = cell_workspace(n, shifted)
    with run.WS(files) as ws:
        cwd = ws.dir
        gen = [sc.make_sup(*s[:5], s[5], cwd, shift=sc.SHIFT * sc.TAGS.index(s[5]) if shifted else 0) for s in specs]
        args = sc.deliver(channel, gen, ws, opt=opt) if gen else []
        # the reference reads the same bytes as cppcheck
        try:
            if channel == "cmd":
                sups = [ref.parse_text(a.split("=", 1)[1]) for a in args]
            elif channel == "list":
                sups = ref.parse_list(ws.read("sup.txt", binary=True).decode())
            else:
                sups = ref.parse_xml(ws.read("sup.xml"))
            invalid = None
        except ref.Invalid as e:
            sups, invalid = [], str(e)
        except FileNotFoundError:
            sups, invalid = [], None
        for s, sp in zip(sups, specs):
            s.text = "/".join(sp)
        inputs = sorted(f for f in files if f.endswith(".c"))
        if absolute:
            inputs = [os.path.join(cwd, f) for f in inputs]
        fs, r = run.findings_xml(["-q"] + list(extra) + args + inputs, cwd)
        rep = None if fs is None else sc.findings_of(fs, files, strip=cwd + "/")
        return {"reported": rep, "res": r, "sups": sups, "invalid": invalid, "cwd": cwd, "texts": files,
                "args": args, "inputs": inputs}


def cell_of(f):
    m = re.search(r"/k([a-z][a-z])/", "/" + f["file"])
    return m.group(1) if m else None


def classify(spec, direction, channel, absolute):
    target, idc, filec, linec, symc = spec[:5]
    k = known_class(idc, direction)
    if k:
        return k
    return "%s:%s:%s/%s/%s/%s/%s:%s" % (direction, channel, target, idc, filec, linec, symc, "abs" if absolute else "rel")


def known_class(idc, direction):
    """Class keys of the two id-glob defects (known_findings.json); only the direction they explain."""
    if direction in ("should-hide", "refused"):
        if idc == "qmark":
            return "id-glob-question-mark-not-accepted"
        if idc == "dstar":
            return "id-glob-double-star-before-more-text-never-matches"
    return None


class Tally:
    def __init__(self):
        self.c = collections.Counter()


def judge_cells(ctx, tally, n, absolute, channel, specs, base, out, opt="--suppress", minimise=True, shifted=False):
    """Compare one run with the reference.  base = findings of the run without suppressions."""
    by_tag = {s[5]: s for s in specs}
    art = {"part": "cells", "ncells": n, "absolute": absolute, "channel": channel, "specs": [list(s) for s in specs], "opt": opt,
           "shifted": shifted}
    r = out["res"]
    if r.timed_out:                             # harness: overloaded machine -- no verdict, evidence says not exhaustive
        ctx.bump("harness_timeouts")
        ctx.capped = True
        return
    if out["reported"] is None or r.rc != 0:
        # the whole command line was refused (or the XML is broken)
        if len(specs) > 1 and minimise:
            for s in specs:                     # find the culprit(s) one by one
                o1 = run_cells(2, absolute, channel, [s[:5] + ("aa",)], opt=opt)
                b2 = base_for(2, absolute)
                judge_cells(ctx, tally, 2, absolute, channel, [s[:5] + ("aa",)], rebase(b2, o1["cwd"]) if absolute else b2[0],
                            o1, opt, False)
            return
        s = specs[0] if specs else ("-",) * 6
        ctx.violation(classify(s, "refused", channel, absolute),
                      "suppression %s accepted by the documented format was refused: rc=%s %s" % (
                          out["args"], r.rc, (r.text_out() + r.text_err())[:200]),
                      dict(art, stdout=r.text_out()[-500:], stderr=r.text_err()[-500:]))
        tally.c["runs_refused"] += 1
        return
    want_hidden = opt == "--suppress"
    rep = collections.Counter(sc.fid(f) for f in out["reported"])
    basec = collections.Counter(sc.fid(f) for f in base)
    problems = []
    for f in base:
        k = sc.fid(f)
        # base was computed in another workspace directory: compare by path relative to the workspace
        h = ref.hidden(out["sups"], f, out["cwd"]) if want_hidden else False
        tag = cell_of(f)
        if h is None:
            tally.c["pairs_undecided_by_documents"] += 1
            continue
        if not want_hidden:
            tally.c["exitcode_part_findings_expected_reported"] += 1
        elif h:
            tally.c["findings_expected_hidden"] += 1
        else:
            tally.c["findings_expected_reported"] += 1
        got_hidden = rep[k] == 0
        if got_hidden != h:
            culprits = [s for s in out["sups"] if ref.matches(s, f, out["cwd"])] if h else []
            spec = None
            if culprits:
                spec = tuple(culprits[0].text.split("/"))
            elif tag in by_tag:
                spec = by_tag[tag]
            problems.append((spec, "should-hide" if h else "should-report", f))
    for k in rep:
        if k not in basec:
            problems.append((None, "extra", {"id": k[0], "file": k[1], "line": k[2], "msg": k[3]}))
    if want_hidden:                               # vacuity accounting per suppression
        for q in out["sups"]:
            ms = [ref.matches(q, f, out["cwd"]) for f in base]
            tally.c["suppressions_matching_some_finding" if any(m is True for m in ms) else
                    "suppressions_undecided" if any(m is None for m in ms) else "suppressions_matching_no_finding"] += 1
    seen = set()
    for spec, direction, f in problems:
        if spec is None:
            key = "%s:%s:%s" % (direction, channel, f["id"])
        else:
            key = classify(spec, direction, channel, absolute)
        if key in seen:
            continue
        seen.add(key)
        ctx.violation(key, "%s %s:%d %s; suppressions of the cell: %s" % (direction, f["file"], f["line"], f["id"], spec),
                      dict(art, finding=[f["id"], f["file"], f["line"]], direction=direction))


_base_cache = {}


def base_for(n, absolute, shifted=False):
    k = (n, absolute, shifted)
    if k not in _base_cache:
        o = run_cells(n, absolute, "cmd", [], shifted=shifted)
        if o["reported"] is None or o["res"].rc != 0:
            raise RuntimeError("baseline run failed: " + o["res"].text_err()[:300])
        # make the paths workspace-independent for absolute runs: they are rewritten per run in rebase()
        _base_cache[k] = (o["reported"], o["cwd"])
    return _base_cache[k]


def rebase(base, cwd):
    fs, old = base
    out = []
    for f in fs:
        g = dict(f)
        if g["file"].startswith(old + "/"):
            g["file"] = cwd + g["file"][len(old):]
        out.append(g)
    return out


def confined_specs(tier):
    """The product alphabet for suppressions whose file pattern names a single cell."""
    ids = ["exact", "other", "star", "prefix", "suffix", "dstar"]
    lines = ["none", "right", "minus", "plus"]
    out = {"xml": [], "cmd": [], "list": []}
    for target in ("Z", "U", "H"):
        syms = ["none", "exact", "glob", "prefix", "wrong"] if target == "U" else ["none", "wrong"]
        for idc, filec, linec in itertools.product(ids, sc.CONFINED_FILES, lines):
            for symc in syms:
                out["xml"].append((target, idc, filec, linec, symc))
            out["cmd"].append((target, idc, filec, linec, "none"))
            out["list"].append((target, idc, filec, linec, "none"))
    return out


def global_specs(tier):
    """Suppressions whose file pattern does not name a cell (none, '*.c', '*', '**', 't', 't/*/*.c').  They still touch
    one cell only when they carry a line number (cells are shifted: no two cells have findings on the same line) or a
    symbol pattern naming the cell's variable -> batched; the others (and every id with '?', which makes the whole
    command line fail) get a run of their own on a 2-cell workspace."""
    ids = ["exact", "other", "star", "prefix", "suffix", "dstar", "qmark"]
    lines = ["none", "right", "minus", "plus"]
    allc = []
    syms = ["none", "exact", "glob", "prefix", "wrong"]
    for idc, filec, linec, symc in itertools.product(ids, sc.GLOBAL_FILES, lines, syms):
        allc.append(("xml", ("U", idc, filec, linec, symc)))
    for target in ("Z", "H"):
        for idc, filec, linec in itertools.product(ids, sc.GLOBAL_FILES, lines):
            if not (filec == "none" and linec != "none"):     # the text format cannot say "line without file"
                allc.append(("cmd", (target, idc, filec, linec, "none")))
                allc.append(("list", (target, idc, filec, linec, "none")))
            allc.append(("xml", (target, idc, filec, linec, "none")))
    for ch in CHANNELS:                                        # ids with '?' and a cell-confined file pattern
        for filec in (sc.CONFINED_FILES if tier == "thorough" else ["exact", "dirstar", "dstar"]):
            allc.append((ch, ("Z", "qmark", filec, "none", "none")))
    batch, solo = [], []
    for ch, s in allc:
        confined = s[3] != "none" or s[4] in ("exact", "glob", "wrong")
        if s[1] == "qmark" or not confined:
            if tier == "quick" and s[1] == "qmark" and (s[3] != "none" or s[4] not in ("none", "exact")):
                continue                                       # quick: the refused '?' ids only once per file pattern
            if tier == "quick" and (ch, s[0]) not in (("xml", "U"), ("cmd", "Z"), ("list", "Z"), ("xml", "H")):
                continue                                       # quick: one channel/target pairing per solo class
            solo.append((ch, s))
        else:
            batch.append((ch, s))
    return batch, solo


def part_cells(ctx, tier, tally):
    prod = confined_specs(tier)
    jobs = []
    for absolute in (False, True):
        for ch in CHANNELS:
            specs = prod[ch]
            if absolute and tier == "quick":
                # quick: absolute invocation only over the file-pattern dimension (thorough: the whole product again)
                specs = [s for s in specs if s[1] in ("exact", "star") and s[3] in ("none", "right") and s[4] in ("none", "exact")]
            for chunk in sc.chunks(specs, NCELL):
                jobs.append((absolute, ch, [s + (sc.TAGS[i],) for i, s in enumerate(chunk)]))
    bases = {a: base_for(NCELL, a) for a in (False, True)}
    ctx.cov["batched_runs"] = len(jobs)
    ctx.cov["suppressions_in_batched_runs"] = sum(len(j[2]) for j in jobs)

    def work(j):
        if ctx.expired():
            return j, None
        return j, run_cells(NCELL, j[0], j[1], j[2])
    for (absolute, ch, specs), out in pmap(work, jobs):
        if out is None:
            continue
        ctx.count(len(specs))
        base = rebase(bases[absolute], out["cwd"]) if absolute else bases[absolute][0]
        judge_cells(ctx, tally, NCELL, absolute, ch, specs, base, out)
        for s in specs:
            ctx.distinct("A|%s|%s|%s" % (ch, absolute, "/".join(s[:5])))
        ctx.sample({"part": "A", "channel": ch, "absolute_paths": absolute, "first_args": out["args"][:2],
                    "cells": len(specs), "reported": len(out["reported"] or [])}, maxn=2)


def part_global(ctx, tier, tally):
    batch, solo = global_specs(tier)
    jobs = []
    for ch in CHANNELS:
        for chunk in sc.chunks([s for c, s in batch if c == ch], NCELL):
            jobs.append((ch, [s + (sc.TAGS[i],) for i, s in enumerate(chunk)], True))
    jobs += [(ch, [s + ("aa",)], False) for ch, s in solo]
    ctx.cov["global_pattern_batched_runs"] = len(jobs) - len(solo)
    ctx.cov["solo_runs"] = len(solo)

    def work(j):
        if ctx.expired():
            return j, None
        ch, specs, shifted = j
        return j, run_cells(NCELL if shifted else 2, False, ch, specs, shifted=shifted)
    for (ch, specs, shifted), out in pmap(work, jobs):
        if out is None:
            continue
        ctx.count(len(specs))
        for s in specs:
            ctx.distinct("G|%s|%s" % (ch, "/".join(s[:5])))
        n = NCELL if shifted else 2
        judge_cells(ctx, tally, n, False, ch, specs, base_for(n, False, shifted)[0], out, shifted=shifted)


def part_exitcode(ctx, tier, tally):
    """--exitcode-suppress(ions) entries never hide: the same confined alphabet, 48 entries per run."""
    prod = confined_specs(tier)["cmd"]
    if tier == "quick":
        prod = [s for s in prod if s[3] in ("none", "right")]
    jobs = []
    for ch in ("cmd", "list"):
        for chunk in sc.chunks(prod, NCELL):
            jobs.append((ch, [s + (sc.TAGS[i],) for i, s in enumerate(chunk)]))
    jobs += [("cmd", [("Z", idc, "none", "none", "none", "aa")]) for idc in ("exact", "star", "prefix")]
    base = base_for(NCELL, False)[0]

    def work(j):
        if ctx.expired():
            return j, None
        return j, run_cells(NCELL, False, j[0], j[1], opt="--exitcode-suppress")
    for (ch, specs), out in pmap(work, jobs):
        if out is None:
            continue
        ctx.count(len(specs))
        tally.c["exitcode_suppression_entries_checked"] += len(specs)
        judge_cells(ctx, tally, NCELL, False, ch, specs, base, out, opt="--exitcode-suppress")


# ================================================================================================ part B: inline
KINDS = {
    # kind: (header of the function, statement with the finding, rest, id, other id, one-line body for the '{' case)
    "Z": ("int {n}(int x){{ int r = 0;", "r = x/0;", "return r; }}", "zerodiv", "uninitvar", "int r = x/0; return r; }}"),
    "U": ("int {n}(void){{ int v{n};", "return v{n};", "}}", "uninitvar", "zerodiv", None),
    "A": ("void {n}(void){{ int a[2];", "a[3]=0;", "}}", "arrayIndexOutOfBounds", "zerodiv", "int a[2]; a[3]=0; }}"),
}
PLACEMENTS = ["same_sl", "same_blk", "lead_blk", "prev_sl", "prev_blk", "prev_blank", "prev_comment", "prev_mixed",
              "two_before", "after", "next_stmt", "brace", "brace_neg", "two_comments"]
LISTFORMS = ["plain", "br", "br_nospace", "br_other_first", "br_other_last", "br_tight", "semi", "slashes", "br_text"]
SYMFORMS = ["sym_plain", "sym_br_first", "sym_br_last"]
INLINE_IDS = ["exact", "other", "star", "prefix", "suffix", "dstar", "qmark"]


def comment_text(kw, listform, idp, other, sym):
    a = idp + ((" symbolName=" + sym) if sym else "")
    return {
        "plain": "%s %s" % (kw, a),
        "br": "%s [%s]" % (kw, a),
        "br_nospace": "%s[%s]" % (kw, a),
        "br_other_first": "%s [%s, %s]" % (kw, other, a),
        "br_other_last": "%s [%s, %s]" % (kw, a, other),
        "br_tight": "%s[%s,%s]" % (kw, other, a),
        "semi": "%s %s ; some comment" % (kw, a),
        "slashes": "%s %s // some comment" % (kw, a),
        "br_text": "%s[%s] some comment" % (kw, a),
        "sym_plain": "%s %s" % (kw, a),
        "sym_br_first": "%s [%s, %s]" % (kw, a, other),
        "sym_br_last": "%s[%s, %s]" % (kw, other, a),
    }[listform]


def place(placement, kind, name, com, other_com):
    """-> list of source lines of one function."""
    head, stmt, rest, _, _, body1 = KINDS[kind]
    head, stmt, rest = head.format(n=name), stmt.format(n=name), rest.format(n=name)
    sl, blk = "// " + com, "/* " + com + " */"
    if placement == "same_sl":
        return [head, "  %s %s" % (stmt, sl), rest]
    if placement == "same_blk":
        return [head, "  %s %s" % (stmt, blk), rest]
    if placement == "lead_blk":
        return [head, "  %s %s" % (blk, stmt), rest]
    if placement == "prev_sl":
        return [head, "  " + sl, "  " + stmt, rest]
    if placement == "prev_blk":
        return [head, "  " + blk, "  " + stmt, rest]
    if placement == "prev_blank":
        return [head, "  " + sl, "", "  " + stmt, rest]
    if placement == "prev_comment":
        return [head, "  " + sl, "  // an ordinary comment", "  " + stmt, rest]
    if placement == "prev_mixed":
        return [head, "  " + sl, "", "  /* an ordinary comment */", "", "  " + stmt, rest]
    if placement == "two_before":        # the comment belongs to the next line of code, which is not the finding
        return [head, "  " + sl, "  ;", "  " + stmt, rest]
    if placement == "after":
        return [head, "  " + stmt, "  " + sl, "  ;", rest]
    if placement == "next_stmt":         # manual: the comment only applies to the line it is on
        return [head, "  ; " + sl, "  " + stmt, rest]
    if placement == "two_comments":      # manual, 'Multiple suppressions': two comments before the code
        return [head, "  // " + other_com, "  " + sl, "  " + stmt, rest]
    if body1 is None:
        return None
    sig = head.split("{")[0]
    if placement == "brace":             # '{' on its own line: current and next line
        return [sig, "{ " + sl, "  " + body1.format(n=name)]
    if placement == "brace_neg":
        return [sig, "{ " + sl, "  ;", "  " + body1.format(n=name)]
    raise ValueError(placement)


def idpat(kind, idc):
    tid, other = KINDS[kind][3], KINDS[kind][4]
    return other if idc == "other" else sc.ID_PATTERNS[tid][idc]


def inline_line_cases(tier):
    """(class string, kind, placement, listform, idc, symc)"""
    out = []
    for kind in ("Z", "A"):
        for pl, lf, idc in itertools.product(PLACEMENTS, LISTFORMS, INLINE_IDS):
            if tier == "quick" and kind == "A" and (lf not in ("plain", "br_other_first") or idc not in ("exact", "other", "star")):
                continue
            out.append((kind, pl, lf, idc, "none"))
        for pl in PLACEMENTS:
            out.append((kind, pl, "sym_plain", "exact", "wrong"))     # a finding without symbol is not matched
    for pl, lf, idc, symc in itertools.product(PLACEMENTS, SYMFORMS, ("exact", "star", "prefix", "other"),
                                               ("exact", "glob", "prefix", "wrong")):
        out.append(("U", pl, lf, idc, symc))
    for pl, lf, idc in itertools.product(PLACEMENTS, LISTFORMS, INLINE_IDS):
        if tier == "quick" and lf not in ("plain", "br", "semi"):
            continue
        out.append(("U", pl, lf, idc, "none"))
    return out


def gen_line_file(cases, fileno):
    lines, spans = [], []
    for i, (kind, pl, lf, idc, symc) in enumerate(cases):
        name = "f%d_%d" % (fileno, i)
        sym = None
        if symc != "none":
            sym = {"exact": "v" + name, "glob": "v?%s" % name[1:], "prefix": "vf*", "wrong": "zz"}[symc]
        tid, other = KINDS[kind][3], KINDS[kind][4]
        com = comment_text("cppcheck-suppress", lf, idpat(kind, idc), other, sym)
        fl = place(pl, kind, name, com, "cppcheck-suppress " + other)
        if fl is None:
            continue
        spans.append((len(lines) + 1, len(lines) + len(fl), "line:%s/%s/%s/%s/%s" % (kind, pl, lf, idc, symc)))
        lines += fl
    return "\n".join(lines) + "\n", spans


def block_files():
    """begin/end blocks.  Each function: int f(int x){ int a[2]; int r = 0; ...statements/comments...; return r; }"""
    def fn(name, body):
        return ["int %s(int x){ int a[2]; int r = 0;" % name] + ["  " + b for b in body] + ["  return r; }"]
    A = lambda k: "a[%d]=0;" % k
    Z = "r = x/0;"
    B, E = "// cppcheck-suppress-begin ", "// cppcheck-suppress-end "
    aid, zid = "arrayIndexOutOfBounds", "zerodiv"
    cases = [
        ("simple", [A(11), B + aid, A(12), Z, A(13), E + aid, A(14)]),
        ("simple-blockcomment", [A(11), "/* cppcheck-suppress-begin %s */" % aid, A(12), Z, "/* cppcheck-suppress-end %s */" % aid, A(14)]),
        ("list", [Z, A(11), B + "[%s, %s]" % (aid, zid), A(12), Z, E + "[%s, %s]" % (aid, zid), A(14), Z]),
        ("list-nospace", [B[:-1] + "[%s,%s]" % (aid, zid), A(12), Z, E[:-1] + "[%s,%s]" % (aid, zid), A(14), Z]),
        ("glob-id", [A(11), B + "array*", A(12), Z, E + "array*", A(14)]),
        ("other-id", [A(11), B + "uninitvar", A(12), Z, E + "uninitvar", A(14)]),
        ("nested-same-id", [A(11), B + aid, A(12), B + aid, A(13), E + aid, A(14), E + aid, A(15)]),
        ("nested-different-ids", [B + aid, A(11), Z, B + zid, A(12), Z, E + zid, A(13), Z, E + aid, A(14), Z]),
        ("sequential", [B + aid, A(11), E + aid, A(12), B + aid, A(13), E + aid, A(14)]),
        ("with-line-suppression-inside", [B + aid, A(11), "// cppcheck-suppress " + zid, Z, Z, E + aid, A(14)]),
        ("trailing-comment", [B + aid + " ; because", A(11), Z, E + aid + " // done", A(12)]),
        ("interleaved-different-ids", [B + aid, A(11), B + zid, A(12), Z, E + aid, A(13), Z, E + zid, A(14), Z]),
        ("list-ends-separately", [B + "[%s, %s]" % (aid, zid), A(11), Z, E + zid, A(12), Z, E + aid, A(13), Z]),
    ]
    files = {}
    spans = {}
    for i, (cls, body) in enumerate(cases):
        fname = "blk%02d.c" % i
        files[fname] = "\n".join(fn("bf%d" % i, body)) + "\n"
        spans[fname] = [(1, 999, "block:" + cls)]
    # block with symbolName
    files["blk_sym.c"] = "\n".join([
        "int bs(void){ int va; int vb; int r;",
        "  // cppcheck-suppress-begin uninitvar symbolName=va",
        "  r = va;", "  r += vb;",
        "  // cppcheck-suppress-end uninitvar symbolName=va",
        "  return r; }"]) + "\n"
    spans["blk_sym.c"] = [(1, 999, "block:symbolName")]
    return files, spans


def file_macro_header_files():
    files, spans = {}, {}
    body = ["int %s(int x){ int a[2]; a[3]=0; return x/0; }"]
    aid, zid = "arrayIndexOutOfBounds", "zerodiv"
    variants = [
        ("first-line", ["// cppcheck-suppress-file " + aid]),
        ("after-comment", ["// some header comment", "// cppcheck-suppress-file " + aid]),
        ("after-blank-lines", ["", "", "// cppcheck-suppress-file " + aid]),
        ("blockcomment", ["/* cppcheck-suppress-file %s */" % aid]),
        ("list", ["// cppcheck-suppress-file [%s, %s]" % (aid, zid)]),
        ("list-nospace", ["// cppcheck-suppress-file[%s,%s]" % (zid, aid)]),
        ("glob", ["// cppcheck-suppress-file *"]),
        ("prefix-glob", ["// cppcheck-suppress-file zero*"]),
        ("other-id", ["// cppcheck-suppress-file uninitvar"]),
        ("two-comments", ["// cppcheck-suppress-file " + aid, "// cppcheck-suppress-file " + zid]),
        ("trailing-comment", ["// cppcheck-suppress-file %s ; legacy code" % aid]),
        ("symbol-no-match", ["// cppcheck-suppress-file %s symbolName=zz" % zid]),
    ]
    for i, (cls, head) in enumerate(variants):
        fname = "fs%02d.c" % i
        files[fname] = "\n".join(head + [body[0] % ("ff%d" % i), "int ff%db(int x){ return x/0; }" % i]) + "\n"
        spans[fname] = [(1, 999, "file:" + cls)]
    # -file in a header hides the header's findings only
    files["fsh.h"] = "// cppcheck-suppress-file %s\nstatic void fsh(void){ int b[2]; b[2]=0; }\n" % aid
    files["fsh1.c"] = '#include "fsh.h"\nvoid fsh1(void){ int a[2]; a[5]=0; fsh(); }\n'
    files["fsh2.c"] = '#include "fsh.h"\nvoid fsh2(void){ int a[2]; a[6]=0; fsh(); }\n'
    for f in ("fsh.h", "fsh1.c", "fsh2.c"):
        spans[f] = [(1, 999, "file:in-header")]
    # macros
    files["mac.c"] = "\n".join([
        "// cppcheck-suppress-macro " + zid,
        "#define DIVA(x) ((x)/0)",
        "#define DIVB(x) ((x)/0)",
        "int ma1(int x){ return DIVA(x); }",
        "int ma2(int x){ return DIVB(x); }",
        "int ma3(int x){ return x/0; }",
        "// cppcheck-suppress-macro [%s, %s]" % (aid, zid),
        "#define BADA(a,x) a[7]=(x)/0",
        "void ma4(int x){ int a[2]; BADA(a,x); }",
        "void ma5(int x){ int a[2]; a[8]=x/0; }",
        "// cppcheck-suppress-macro uninitvar",
        "#define DIVC(x) ((x)/0)",
        "int ma6(int x){ return DIVC(x); }",
        "/* cppcheck-suppress-macro zero* */",
        "#define DIVD(x) ((x)/0)",
        "int ma7(int x){ return DIVD(x); }",
        "// cppcheck-suppress-macro %s ; generated code" % zid,
        "",
        "#define DIVE(x) ((x)/0)",
        "int ma8(int x){ return DIVE(x); }",
        "int ma9(int x){ return DIVE(x) + DIVB(x); }",
    ]) + "\n"
    spans["mac.c"] = [(1, 999, "macro:in-source")]
    files["mach.h"] = "// cppcheck-suppress-macro %s\n#define HDIV(x) ((x)/0)\n#define HDIW(x) ((x)/0)\n" % zid
    files["mach1.c"] = '#include "mach.h"\nint mh1(int x){ return HDIV(x); }\nint mh2(int x){ return HDIW(x); }\n'
    for f in ("mach.h", "mach1.c"):
        spans[f] = [(1, 999, "macro:in-header")]
    # line suppressions inside a header included by two files
    files["inh.h"] = "\n".join([
        "static void inh(int x){ int b[2]; int r;",
        "  // cppcheck-suppress " + aid,
        "  b[2]=0;",
        "  b[3]=0; // cppcheck-suppress " + aid,
        "  b[4]=0;",
        "  // cppcheck-suppress [%s, %s]" % (zid, aid),
        "  b[5]=x/0;",
        "  // cppcheck-suppress " + zid,
        "  b[6]=0;",
        "  // cppcheck-suppress-begin " + aid,
        "  b[7]=0;",
        "  // cppcheck-suppress-end " + aid,
        "  b[8]=0;",
        "  (void)r; }"]) + "\n"
    files["inh1.c"] = '#include "inh.h"\nvoid inh1(int x){ int a[2]; a[5]=0; inh(x); }\n'
    files["inh2.c"] = '#include "inh.h"\nvoid inh2(int x){ int a[2]; a[6]=0; inh(x); }\n'
    for f in ("inh.h", "inh1.c", "inh2.c"):
        spans[f] = [(1, 999, "line:in-header")]
    return files, spans


def run_inline(files, extra=()):
    inputs = sorted(f for f in files if f.endswith(".c"))
    with run.WS(files) as ws:
        b, rb = run.findings_xml(["-q"] + inputs, ws.dir)
        g, rg = run.findings_xml(["-q", "--inline-suppr"] + list(extra) + inputs, ws.dir)
        cwd = ws.dir
    return (None if b is None else sc.findings_of(b, files)), rb, (None if g is None else sc.findings_of(g, files)), rg, cwd


INLINE_KNOWN = {
    "interleaved-different-ids": "inline-block-interleaved-begin-end",
}


def judge_inline(ctx, tally, group, files, spans, res):
    base, rb, got, rg, cwd = res
    art = {"part": "inline", "group": group, "files": files}
    if rb.timed_out or rg.timed_out:
        ctx.bump("harness_timeouts")
        ctx.capped = True
        return
    if base is None or got is None or rb.rc != 0 or rg.rc != 0:
        ctx.violation("inline-run-failed:" + group, "run failed rc=%s/%s" % (rb.rc, rg.rc), dict(art, stderr=rg.text_err()[-800:]))
        return
    sups, bad = [], []
    for f, t in files.items():
        s, b = ref.inline_sups(t, f)
        sups += s
        bad += [(f,) + x for x in b]
    rep = collections.Counter(sc.fid(f) for f in got)
    basec = collections.Counter(sc.fid(f) for f in base)

    def cls_of(f):
        for lo, hi, c in spans.get(f["file"], []):
            if lo <= f["line"] <= hi:
                return c
        return "unknown"
    seen = set()
    for f in base:
        h = ref.hidden(sups, f, cwd)
        if h is None:
            tally.c["pairs_undecided_by_documents"] += 1
            continue
        tally.c["inline_findings_expected_hidden" if h else "inline_findings_expected_reported"] += 1
        if (rep[sc.fid(f)] == 0) != h:
            c = cls_of(f)
            parts = c.split("/")
            if len(parts) >= 4 and known_class(parts[3], "should-hide" if h else "should-report"):
                key = known_class(parts[3], "should-hide")
            elif c.startswith("block:") and c[6:] in INLINE_KNOWN:
                key = INLINE_KNOWN[c[6:]]
            else:
                key = "inline:%s:%s" % ("should-hide" if h else "should-report", c)
            if key not in seen:
                seen.add(key)
                src = files[f["file"]].split("\n")
                ctx.violation(key, "%s: %s:%d %s is %s but the manual says it is %s" % (
                    c, f["file"], f["line"], f["id"], "hidden" if rep[sc.fid(f)] == 0 else "reported", "hidden" if h else "reported"),
                    {"part": "inline", "group": group, "class": c, "finding": [f["id"], f["file"], f["line"]],
                     "files": {f["file"]: files[f["file"]]} if len(src) < 60 else {},
                     "context": src[max(0, f["line"] - 7):f["line"] + 3]})
    for k in rep:
        if k not in basec and k[0] != "invalidSuppression":
            ctx.violation("inline:extra:%s" % k[0], "finding %s only appears with --inline-suppr" % (k,), art)
    for k in rep:
        if k[0] == "invalidSuppression":
            # a comment the reference accepts must not be refused
            if not any(b[0] == k[1] and b[1] == k[2] for b in bad):
                c = cls_of({"file": k[1], "line": k[2]})
                key = "inline:refused:" + c
                if c.startswith("block:") and c[6:] in INLINE_KNOWN:
                    key = INLINE_KNOWN[c[6:]]
                if key not in seen:
                    seen.add(key)
                    ctx.violation(key, "documented inline form refused: %s" % (k,), {"part": "inline", "group": group, "class": c,
                                                                                    "files": {k[1]: files.get(k[1], "")}})


def part_inline(ctx, tier, tally):
    cases = inline_line_cases(tier)
    groups = []
    for i, chunk in enumerate(sc.chunks(cases, 300)):
        text, spans = gen_line_file(chunk, i)
        groups.append(("lines%d" % i, {"il%d.c" % i: text}, {"il%d.c" % i: spans}, len(spans)))
    bf, bs = block_files()
    groups.append(("blocks", bf, bs, len(bf)))
    ff, fsp = file_macro_header_files()
    groups.append(("file-macro-header", ff, fsp, len(ff)))
    ctx.cov["inline_cases"] = sum(g[3] for g in groups)

    def work(g):
        return g, run_inline(g[1])
    for g, res in pmap(work, groups):
        ctx.count(g[3])
        for fname, sp in g[2].items():
            for lo, hi, c in sp:
                ctx.distinct("I|" + c)
        judge_inline(ctx, tally, g[0], g[1], g[2], res)
    ctx.sample({"part": "B", "example_function": gen_line_file([("Z", "prev_mixed", "br_other_first", "prefix", "none")], 0)[0].split("\n")}, maxn=3)



# ================================================================================================ part B2: bracket lists
# Every bracket list of length 1..3 whose elements INDEPENDENTLY take an id from {zerodiv, uninitvar, '*'} and a
# symbolName from {none, the variable of the line, a glob matching it, a wrong name}, in every order, in the plain
# (line before / same line), -begin/-end, -macro and -file forms and inside a header, against a line that carries a
# finding without symbol (zerodiv) AND a finding with a symbol (uninitvar); plus lines carrying only one of the two.
# An element hides a finding iff its own id and its own symbolName match (vlib/ref_suppress.py).
LIST_IDS = collections.OrderedDict([("Z", "zerodiv"), ("U", "uninitvar"), ("G", "*")])
LIST_SYMS = ("none", "match", "glob", "wrong")


def list_elements():
    return [(i, sy) for i in LIST_IDS for sy in LIST_SYMS]


def all_lists(maxlen):
    el = list_elements()
    for n in range(1, maxlen + 1):
        for combo in itertools.product(el, repeat=n):
            yield combo


def list_text(combo, name, tight):
    parts = []
    for i, sy in combo:
        t = LIST_IDS[i]
        if sy != "none":
            t += " symbolName=" + {"match": "v" + name, "glob": "v" + name[:2] + "*", "wrong": "zz" + name}[sy]
        parts.append(t)
    return ("[%s]" % ",".join(parts)) if tight else ("[%s]" % ", ".join(parts))


def list_class(form, combo):
    return "list:%s:%s" % (form, ",".join("%s-%s" % e for e in combo))


LINE_BODY = {"both": "return x/0 + v{n};", "Z": "(void)v{n}; return x/0;", "U": "return x + v{n};"}


def gen_list_functions(form, combos, prefix, linekind="both"):
    """-> (lines, spans) for one file; every list gets its own function (and macro)."""
    lines, spans = [], []
    for k, combo in enumerate(combos):
        n = "%s%d" % (prefix, k)
        lt = list_text(combo, n, tight=k % 2 == 1)
        body = LINE_BODY[linekind].format(n=n)
        decl = "int %s(int x){ int v%s;" % (n, n) if linekind != "Z" else "int %s(int x){ int v%s = 0;" % (n, n)
        if form == "prev":
            fl = [decl, "  // cppcheck-suppress " + lt, "  " + body, "}"]
        elif form == "same":
            fl = [decl, "  %s // cppcheck-suppress%s" % (body, lt), "}"]
        elif form == "block":
            fl = [decl, "  // cppcheck-suppress-begin " + lt, "  " + body, "  // cppcheck-suppress-end " + lt, "}"]
        elif form == "macro":
            fl = ["// cppcheck-suppress-macro " + lt, "#define M%s(x,v) ((x)/0 + (v))" % n,
                  "int %s(int x){ int v%s; return M%s(x, v%s); }" % (n, n, n, n)]
        else:
            raise ValueError(form)
        spans.append((len(lines) + 1, len(lines) + len(fl), list_class(form + ("" if linekind == "both" else "-" + linekind), combo)))
        lines += fl
    return lines, spans


def list_groups(tier):
    """-> [(group name, files, spans, number of lists)]"""
    groups = []
    full = list(all_lists(3))
    short = list(all_lists(2))
    plan = [("prev", full), ("block", full), ("macro", full), ("same", full if tier == "thorough" else short)]
    for form, combos in plan:
        for ci, chunk in enumerate(sc.chunks(combos, 320)):
            fname = "ls_%s%d.c" % (form, ci)
            lines, spans = gen_list_functions(form, chunk, "%s%d_" % (form[0], ci))
            groups.append(("lists-%s%d" % (form, ci), {fname: "\n".join(lines) + "\n"}, {fname: spans}, len(chunk)))
    # lines carrying only one of the two findings
    for kind in ("Z", "U"):
        fname = "ls_only%s.c" % kind
        lines, spans = gen_list_functions("prev", short, "o%s_" % kind.lower(), kind)
        groups.append(("lists-only-" + kind, {fname: "\n".join(lines) + "\n"}, {fname: spans}, len(short)))
    # inside a header included by two files
    lines, spans = gen_list_functions("prev", short, "hh_")
    lines = [l.replace("int hh_", "static int hh_", 1) if l.startswith("int hh_") else l for l in lines]
    calls = " + ".join("hh_%d(x)" % k for k in range(len(short)))
    hfiles = {"lsh.h": "\n".join(lines) + "\n", "lsh1.c": '#include "lsh.h"\nint lsh1(int x){ return %s; }\n' % calls,
              "lsh2.c": '#include "lsh.h"\nint lsh2(int x){ return %s; }\n' % calls}
    groups.append(("lists-header", hfiles, {"lsh.h": [(a, b, c.replace("list:prev", "list:header")) for a, b, c in spans]}, len(short)))
    # -file: one file per list
    fcombos = full if tier == "thorough" else short
    for ci, chunk in enumerate(sc.chunks(fcombos, 160)):
        files, spans = {}, {}
        for k, combo in enumerate(chunk):
            n = "lf%d_%d" % (ci, k)
            files[n + ".c"] = "// cppcheck-suppress-file %s\nint %s(int x){ int v%s;\n  return x/0 + v%s;\n}\n" % (
                list_text(combo, n, tight=k % 2 == 1), n, n, n)
            spans[n + ".c"] = [(1, 99, list_class("file", combo))]
        groups.append(("lists-file%d" % ci, files, spans, len(chunk)))
    return groups


def part_lists(ctx, tier, tally):
    groups = list_groups(tier)
    ctx.cov["bracket_lists"] = sum(g[3] for g in groups)

    def work(g):
        if ctx.expired():
            return g, None
        return g, run_inline(g[1])
    for g, res in pmap(work, groups):
        if res is None:
            continue
        ctx.count(g[3])
        for fname, sp in g[2].items():
            for lo, hi, c in sp:
                ctx.distinct("L|" + c)
        judge_inline(ctx, tally, g[0], g[1], g[2], res)
    ctx.sample({"part": "B2", "example": gen_list_functions("block", [(("U", "match"), ("Z", "none"), ("G", "wrong"))], "ex")[0]}, maxn=4)


# ================================================================================================ part D: invalid syntax
def part_invalid(ctx, tier, tally):
    """Whatever is none of the documented formats must not hide anything without an error being shown."""
    files = cell_workspace(1)
    inputs = ["t/kaa/maa.c"]
    f = "t/kaa/maa.c"
    cmd = ["", ":" + f, "zerodiv:", "zerodiv:%s:" % f, "zerodiv:%s:x" % f, "zerodiv:%s:4x" % f, ":%s:4" % f]
    xmls = ["<suppressions><suppress><fileName>%s</fileName></suppress></suppressions>" % f,
            "<suppressions><suppress><id>zerodiv</id></suppressions>",
            "<suppressions><suppress><id>zerodiv</id><lineNumber>x</lineNumber></suppress></suppressions>",
            "<suppressions><suppress><id></id></suppress></suppressions>"]
    cases = [("cmd", ["--suppress=" + c], None) for c in cmd]
    cases += [("list", ["--suppressions-list=bad.txt"], ("bad.txt", "uninitvar\n" + c + "\n")) for c in cmd if c]
    cases += [("xml", ["--suppress-xml=bad.xml"], ("bad.xml", x)) for x in xmls]
    with run.WS(files) as ws:
        base, rb = run.findings_xml(["-q"] + inputs, ws.dir)
        basec = collections.Counter(run.fkey(x) for x in base)
        for ch, args, extra in cases:
            if extra:
                ws.write(*extra)
                # sanity: the reference calls it invalid too
            try:
                if ch == "cmd":
                    ref.parse_text(args[0].split("=", 1)[1])
                elif ch == "list":
                    ref.parse_list(extra[1])
                else:
                    ref.parse_xml(extra[1])
                ctx.bump("invalid_cases_reference_accepts")
                continue
            except ref.Invalid:
                pass
            fs, r = run.findings_xml(["-q"] + args + inputs, ws.dir)
            if r.timed_out:
                ctx.bump("harness_timeouts")
                ctx.capped = True
                continue
            ctx.count()
            loud = r.rc != 0 and ("error" in r.text_out() + r.text_err())
            tally.c["invalid_refused_loudly" if loud else "invalid_not_refused"] += 1
            ctx.distinct("D|%s|%s" % (ch, args[0] if not extra else extra[1]))
            if not loud:
                gotc = collections.Counter(run.fkey(x) for x in (fs or []))
                if fs is None or (basec - gotc):
                    ctx.violation("invalid-silently-matches:%s" % ch, "invalid suppression %s %s hides findings without any error" % (args, extra),
                                  {"part": "invalid", "channel": ch, "args": args, "extra": extra})
    # inline
    inl = {
        "no-id": "void iv(void){ int a[2];\n  // cppcheck-suppress\n  a[3]=0; }\n",
        "no-id-begin": "void iv(void){ int a[2];\n  // cppcheck-suppress-begin\n  a[3]=0;\n // cppcheck-suppress-end\n }\n",
        "unterminated-list": "void iv(void){ int a[2];\n  // cppcheck-suppress [arrayIndexOutOfBounds\n  a[3]=0; }\n",
        "end-without-begin": "void iv(void){ int a[2];\n  a[3]=0;\n  // cppcheck-suppress-end arrayIndexOutOfBounds\n a[4]=0; }\n",
        "begin-without-end": "void iv(void){ int a[2];\n  // cppcheck-suppress-begin arrayIndexOutOfBounds\n  a[3]=0; }\n",
        "free-text-attribute": "void iv(void){ int a[2];\n  // cppcheck-suppress arrayIndexOutOfBounds because\n  a[3]=0; }\n",
    }
    for cls, text in inl.items():
        s, bad = ref.inline_sups(text, "iv.c")
        if not bad:
            ctx.bump("invalid_cases_reference_accepts")
            continue
        base, rb, got, rg, cwd = run_inline({"iv.c": text})
        if rb.timed_out or rg.timed_out or base is None:
            ctx.bump("harness_timeouts")
            ctx.capped = True
            continue
        ctx.count()
        ctx.distinct("D|inline|" + cls)
        loud = any(f["id"] == "invalidSuppression" for f in got or []) or rg.rc != 0
        tally.c["invalid_refused_loudly" if loud else "invalid_not_refused"] += 1
        hidden_any = collections.Counter(sc.fid(f) for f in base) - collections.Counter(sc.fid(f) for f in got or [])
        if hidden_any and not loud:
            ctx.violation("invalid-silently-matches:inline:" + cls, "invalid inline suppression hides %s silently" % list(hidden_any),
                          {"part": "inline-invalid", "class": cls, "files": {"iv.c": text}})


# ================================================================================================ main
def do_replay(ctx, replay):
    a = replay["artefact"]
    tally = Tally()
    if a.get("part") == "cells":
        specs = [tuple(s) for s in a["specs"]]
        sh = a.get("shifted", False)
        out = run_cells(a["ncells"], a["absolute"], a["channel"], specs, opt=a.get("opt", "--suppress"), shifted=sh)
        b = base_for(a["ncells"], a["absolute"], sh)
        base = rebase(b, out["cwd"]) if a["absolute"] else b[0]
        print("command line:", out["args"], out["inputs"][:3], "...")
        print("reference suppressions:", out["sups"])
        print("exit status:", out["res"].rc, (out["res"].text_out() + out["res"].text_err())[:300] if out["res"].rc else "")
        rep = collections.Counter(sc.fid(f) for f in out["reported"] or [])
        for f in base:
            h = ref.hidden(out["sups"], f, out["cwd"]) if a.get("opt", "--suppress") == "--suppress" else False
            o = rep[sc.fid(f)] == 0
            if h is not None and h != o:
                print("MISMATCH %s:%d %s  expected %s  observed %s" % (f["file"], f["line"], f["id"], "hidden" if h else "reported",
                                                                     "hidden" if o else "reported"))
        judge_cells(ctx, tally, a["ncells"], a["absolute"], a["channel"], specs, base, out, a.get("opt", "--suppress"), False, sh)
    elif a.get("part") in ("inline", "inline-invalid"):
        files = a["files"]
        res = run_inline(files)
        base, rb, got, rg, cwd = res
        sups = []
        for f, t in files.items():
            sups += ref.inline_sups(t, f)[0]
        print("reference suppressions:", sups)
        rep = collections.Counter(sc.fid(f) for f in got or [])
        for f in base or []:
            h = ref.hidden(sups, f, cwd)
            print("%s:%d %-24s expected %-8s observed %s" % (f["file"], f["line"], f["id"], "hidden" if h else "reported",
                                                           "hidden" if rep[sc.fid(f)] == 0 else "reported"))
        for f in got or []:
            if f["id"] == "invalidSuppression":
                print("invalidSuppression:", f["file"], f["line"], f["msg"])
        judge_inline(ctx, tally, a.get("group", "replay"), files, {f: [(1, 99999, a.get("class", "replay"))] for f in files}, res)
    elif a.get("part") == "invalid":
        files = cell_workspace(1)
        with run.WS(files) as ws:
            if a["extra"]:
                ws.write(*a["extra"])
            fs, r = run.findings_xml(["-q"] + a["args"] + ["t/kaa/maa.c"], ws.dir)
            print("rc", r.rc, r.text_out(), [run.fshort(f) for f in fs or []])
    return 1 if ctx.nviol else 0


def main(tier, replay=None):
    ctx = Ctx("C23", tier, "model_checking", 600 if tier == "quick" else 1800, replay)
    build.build("plain")
    if replay:
        return do_replay(ctx, replay)
    tally = Tally()
    parts = os.environ.get("VERIF_PARTS", "inline,lists,invalid,cells,global,exitcode").split(",")
    for name, fn in (("inline", part_inline), ("lists", part_lists), ("invalid", part_invalid), ("cells", part_cells), ("global", part_global),
                     ("exitcode", part_exitcode)):
        if name in parts:
            t0 = time.time()
            fn(ctx, tier, tally)
            print("  part %-8s done: evaluations=%d %.0fs" % (name, ctx.evaluations, time.time() - t0), flush=True)
    for k, v in tally.c.items():
        ctx.cov[k] = v
    ctx.cov["states"] = max(1, len(ctx._distinct))
    ctx.cov["transitions"] = max(1, ctx.evaluations)
    ctx.cov["traces_validated_against_impl"] = ctx.evaluations
    ctx.assumptions = [
        "reference model = vlib/ref_suppress.py, written from man/manual.md (Suppressions) and the header comment of lib/pathmatch.h",
        "the documents do not say against which base path a relative analysed file name is matched: an (absolute or "
        "cwd-dependent pattern, relative file name) pair is left unconstrained (counted as pairs_undecided_by_documents) and "
        "re-tested with the files given by absolute path",
        "findings used have a single location, so 'the finding's file and line' is unambiguous",
        "invalid syntax: only 'must not hide anything without an error' is demanded",
    ]
    return ctx.finish(
        rule="A: product {6 id patterns + '?'} x {15 cell-confined + 6 global file patterns} x {no line, right, -1, +1} x "
             "{no symbol, exact, glob, prefix*, wrong} for 3 target findings x 3 channels x {relative, absolute} input paths, "
             "48 independent cells per run where the file pattern confines the suppression, one run each otherwise; "
             "B: every inline placement x list form x id pattern x symbol form, one function per case, plus block/file/"
             "macro/header forms; B2: all bracket lists of length 1..3 over {3 ids} x {4 symbolName classes} per element in "
             "the plain/begin-end/macro/file/header forms; C: the same entries as exitcode-suppressions; D: invalid forms. evaluation = one "
             "(suppression, workspace) combination judged on every finding of the workspace; distinct = distinct "
             "suppression class x channel; nontrivial = all (every workspace has >= 11 findings)")


if __name__ == "__main__":
    import sys
    sys.exit(main(sys.argv[1] if len(sys.argv) > 1 else "quick"))
