"""C08 -- name resolution agrees with the compiler.

Bounded-exhaustive enumeration against a reference frontend:
  scope programs     every tree of <= N scopes over {namespace, struct with member x, class with static member x,
                     function body, out-of-class member function, block, for, if, lambda} where each scope declares
                     x (local / parameter / for-init / condition / init-capture / member) or not and uses x in every
                     meaningful form (x, ::x, this->x, N::x, C::x) before its declaration and after its children;
                     each with and without a global x; the C subset (function, block, for, if) also as C
  overload programs  every set of <= 3 overloads out of 12 parameter lists x 12 call arguments; and two-parameter
                     overloads: every set of <= 3 parameter lists (T1,T2) over {int,long,double,short} plus every
                     set of 4 over {int,long,double} (thorough: every set of <= 4 over all 16), each called with
                     all 25 pairs of variables of type int/short/long/double/char (one call per line; a call clang
                     rejects as ambiguous is not judged)
Hundreds of programs share one file (unique name suffixes), so one `clang -Xclang -ast-dump=json` run and one
`cppcheck --dump` run judge them all; results are mapped back by line ranges.  Only programs without a clang error
count.  Oracle (vlib/nameres.py): (i) a linked variable use names the declaration clang names, (ii) declarations
that are different entities for clang never share a varId, (iii) a linked call names the overload clang selected.
Unlinked uses are not judged.
"""
import collections, gc, os, time
from concurrent.futures import ProcessPoolExecutor
from vlib import build, run, dumpcheck, scopegen, clangref, nameres
from vlib.core import Ctx, NCPU

PER_FILE = 150
_WSN = [0]


def _ws(files):
    _WSN[0] += 1
    return run.WS(files, name="q%d_%d" % (os.getpid(), _WSN[0]))


def overload_class(prog, p, ref, src):
    """Class key of an overload disagreement: argument, parameter list clang selected, parameter list cppcheck linked."""
    subset, a = prog
    lines = src.splitlines()

    def par(poslist):
        try:
            l = lines[poslist[0][0] - 1]
            return l[l.index("f(") + 2:l.index(")")]
        except (IndexError, ValueError):
            return "?"
    arg, want, got = scopegen.ARGS[a], par(p["clang_pos"]), par(p["cppcheck_pos"])
    if arg in ("'c'", "true") and want == "int" and got in ("double", "float", "bool", "long", "unsigned", "short"):
        return "overload:char-or-bool-argument:integral-promotion-to-int-not-preferred"
    if arg == "\"s\"" and want == "char*" and got in ("unsigned", "int", "long", "short", "bool"):
        return "overload:string-literal-argument:linked-to-integer-parameter-instead-of-char-pointer"
    return "overload:arg=%s:clang=f(%s):cppcheck=f(%s)" % (arg, want, got)


_RANK = {"char": 1, "short": 2, "int": 3, "long": 4}


def _conv(a, p):
    """E exact, P integral promotion, W other integral widening, N integral narrowing, F integral<->floating"""
    if a == p:
        return "E"
    if a == "double" or p == "double":
        return "F"
    if a in ("short", "char") and p == "int":
        return "P"
    return "W" if _RANK[p] > _RANK[a] else "N"


def overload2_class(item, p, src):
    """Class of a two-parameter overload disagreement in terms of the C++ conversions involved:
    is clang's choice 'lossless' (every argument exact / promoted / widened), does it have strictly more exactly
    matching arguments than every other lossless candidate ('unique-most-exact') or not ('tie'), and is the candidate
    cppcheck linked lossless or lossy (needs a narrowing or integral<->floating conversion)."""
    lines = src.splitlines()
    ty = dict(scopegen.ATYPES)

    def par(poslist):
        try:
            l = lines[poslist[0][0] - 1]
            return tuple(l[l.index("f(") + 2:l.index(")")].replace(" ", "").split(","))
        except (IndexError, ValueError):
            return None
    args = (ty[item[1][0]], ty[item[1][1]])
    c, k = par(p["clang_pos"]), par(p["cppcheck_pos"])
    cands = [tuple(x) for x in item[0]]
    if c not in cands or k not in cands:
        return "overload2:unmapped:args=(%s,%s)" % args

    def kinds(pl):
        return "".join(_conv(a, t) for a, t in zip(args, pl))
    lossless = [x for x in cands if not set(kinds(x)) & set("FN")]
    if c in lossless:
        ec = kinds(c).count("E")
        rel = "unique-most-exact" if all(ec > kinds(x).count("E") for x in lossless if x != c) else "tie-on-exact-count"
        cl = "lossless:" + rel
    else:
        cl = "lossy"
    return "overload2:clang=%s:cppcheck=%s" % (cl, "lossless" if k in lossless else "lossy")


def analyse(kind, lang, gx, items, tag0=0):
    """Render `items` into one file, run clang and cppcheck once, judge.  -> result dict"""
    gc.disable()
    if kind == "scope":
        trees = [scopegen.parse(s) for s in items]
        src, ranges, tags = scopegen.render_batch_tagged(trees, gx, lang, tag0=tag0)
        rules = ("var", "varid-unique", "call")
    elif kind == "overload2":
        # items = overload sets on entry; one judged unit per call line afterwards
        src, ranges, items = scopegen.render_overloads2([tuple(tuple(x) for x in st) for st in items], tag0=tag0)
        tags = None
        rules = ("call", "var", "varid-unique")
    else:
        src, ranges = scopegen.render_overloads(items, tag0=tag0)
        tags = None
        rules = ("call", "var", "varid-unique")
    name = "t." + lang
    res = {"programs": len(items), "rejected_by_clang": 0, "stats": {}, "problems": [], "error": None}
    res["nontrivial"], res["vacuous_programs"] = [], 0
    with _ws({name: src}) as ws:
        root, errs, errtext = clangref.run(name, lang, ws.dir)
        if root is None:
            res["error"] = "clang produced no JSON: " + errtext[-300:]
            return res
        ref = clangref.extract(root, src)
        del root
        r = run.cppcheck(["-q", "--dump", name], ws.dir, timeout=600)
        dp = os.path.join(ws.dir, name + ".dump")
        try:
            d = dumpcheck.load(dp)
        except Exception as e:
            res["error"] = "no usable dump (rc=%s): %s %s" % (r.rc, e, r.text_err()[-300:])
            return res
    if len(d.cfgs) != 1:
        res["error"] = "expected one configuration, got %d: %s" % (len(d.cfgs), r.text_err()[-300:])
        return res
    st, probs = nameres.judge(ref, d.cfgs[0], tags, rules)
    rejected = set(i for a, b, i in ranges if any(a <= e <= b for e in errs))
    res["rejected_by_clang"] = len(rejected)

    def prog_of(line):
        for a, b, i in ranges:
            if a <= line <= b:
                return i
        return None
    jv = collections.Counter(prog_of(l) for l in st.pop("_judged_var_lines"))
    jc = collections.Counter(prog_of(l) for l in st.pop("_judged_call_lines"))
    res["stats"] = st
    res["nontrivial"] = [items[i] if kind == "scope" else list(items[i]) for i in range(len(items))
                         if i not in rejected and (jv.get(i) or (kind != "scope" and jc.get(i)))]
    res["vacuous_programs"] = len(items) - len(rejected) - len(res["nontrivial"])
    for p in probs:
        i = prog_of(p["line"])
        if i is None or i in rejected:
            continue
        if kind == "overload" and p["rule"] == "call":
            key = overload_class(items[i], p, ref, src)
        elif kind == "overload2" and p["rule"] == "call":
            key = overload2_class(items[i], p, src)
        else:
            key = nameres.classify(p)
        a, b = [(a, b) for a, b, k in ranges if k == i][0]
        res["problems"].append({"key": key, "msg": p["msg"] + ((" [" + p["where"] + "]") if p["where"] else ""),
                                "program": items[i] if kind == "scope" else list(items[i]), "rel_line": p["line"] - a + 1})
    return res


def work(job):
    kind, lang, gx, items, tag0 = job
    try:
        return analyse(kind, lang, gx, items, tag0)
    except Exception as e:        # a harness failure must be visible, never a silent pass
        import traceback
        return {"programs": len(items), "rejected_by_clang": 0, "stats": {}, "problems": [], "nontrivial": [],
                "vacuous_programs": 0, "error": "harness exception: " + traceback.format_exc()[-800:]}


def jobs_for(tier):
    nfull = 3 if tier == "quick" else 4
    nchain = 4 if tier == "quick" else 5
    ov = list(scopegen.overload_programs(3, 12, 12))
    for i in range(0, len(ov), 600):
        yield ("overload", "cpp", 0, ov[i:i + 600], i)
    o2 = [[list(x) for x in st] for st in scopegen.overload2_sets(tier)]
    for i in range(0, len(o2), 140):
        yield ("overload2", "cpp", 0, o2[i:i + 140], i)
    for lang in ("cpp", "c"):
        full = (t for n in range(1, nfull + 1) for t in scopegen.programs(n, lang=lang))
        chains = (t for t in scopegen.programs(nchain, lang=lang) if scopegen.is_chain(t))
        rest = (t for t in scopegen.programs(nchain, lang=lang) if not scopegen.is_chain(t))
        # quick: the largest programs (chains of nchain scopes) only with a global x (the richer lookup)
        phases = [(full, (0, 1)), (chains, (1,) if tier == "quick" else (0, 1))]
        if tier == "thorough":
            phases.append((rest, (0, 1)))
        base = 0
        for gen, gxs in phases:
            chunk = []
            for t in gen:
                chunk.append(scopegen.show(t))
                if len(chunk) >= PER_FILE:
                    for gx in gxs:
                        yield ("scope", lang, gx, chunk, base)
                    base += len(chunk)
                    chunk = []
            if chunk:
                for gx in gxs:
                    yield ("scope", lang, gx, chunk, base)
                base += len(chunk)


def describe(kind, prog):
    if kind == "scope":
        return prog
    if kind == "overload2":
        return scopegen.show_overload2(prog)
    return scopegen.show_overload((tuple(prog[0]), prog[1]))


def replay_case(a):
    kind = a["kind"]
    if kind == "scope":
        items = [a["program"]]
        src = scopegen.render_batch([scopegen.parse(a["program"])], a["global_x"], a["lang"])[0]
    elif kind == "overload2":
        items = [a["program"][0]]        # the whole overload set with all 25 calls; the recorded call is one of them
        src = scopegen.render_overloads2([tuple(tuple(x) for x in a["program"][0])])[0]
    else:
        items = [(tuple(a["program"][0]), a["program"][1])]
        src = scopegen.render_overloads(items)[0]
    print("program %s (lang %s, global x %s):" % (describe(kind, a["program"]), a["lang"], a.get("global_x")))
    for i, l in enumerate(src.splitlines()):
        print("%4d  %s" % (i + 1, l))
    res = analyse(kind, a["lang"], a.get("global_x", 0), items)
    print("expected: every linked use/call names the declaration clang names (class %s absent)" % a.get("class"))
    if res["error"]:
        print("observed: harness error", res["error"])
    print("observed: %d disagreement(s); judged %s" % (len(res["problems"]), res["stats"]))
    for p in res["problems"]:
        print("  %s: %s" % (p["key"], p["msg"]))
    return 0


def main(tier, replay=None):
    ctx = Ctx("C08", tier, "exploration", 900 if tier == "quick" else 2400, replay)
    build.build("plain")
    if replay:
        return replay_case(replay["artefact"])
    run.scratch_base()
    totals = collections.Counter()
    keys_seen = collections.Counter()
    nprog = collections.Counter()
    confirmed = {}
    known_keys = set(k["key"] for k in ctx.known if k.get("status") == "known")
    it = iter(jobs_for(tier))
    window = collections.deque()
    with ProcessPoolExecutor(max_workers=max(2, min(NCPU, 14))) as ex:
        def more():
            while len(window) < 2 * NCPU and not ctx.expired():
                try:
                    j = next(it)
                except StopIteration:
                    return
                window.append((j, ex.submit(work, j)))
        more()
        while window:
            job, fut = window.popleft()
            res = fut.result()
            more()
            kind, lang, gx, items, tag0 = job
            fam = "%s/%s" % (kind, lang)
            if res["error"]:
                ctx.violation("C08:harness-error", "batch %s %s gx=%s +%d: %s" % (kind, lang, gx, tag0, res["error"]),
                              {"kind": kind, "lang": lang, "global_x": gx, "programs": items[:3], "error": res["error"]})
                continue
            nprog[fam] += res["programs"] - res["rejected_by_clang"]
            nprog[fam + ":rejected_by_clang"] += res["rejected_by_clang"]
            ctx.count(res["programs"] - res["rejected_by_clang"])
            for p in res["nontrivial"]:
                ctx.distinct("%s|%s|%s|%s" % (kind, lang, gx, p))
            ctx.bump("programs_without_any_judged_link", res["vacuous_programs"])
            totals.update(res["stats"])
            if res["nontrivial"] and len([s for s in ctx.samples if s["family"] == fam]) < 2:
                p = res["nontrivial"][len(res["nontrivial"]) // 2]
                ctx.sample({"family": fam, "global_x": gx, "program": describe(kind, p)}, maxn=8)
            for p in res["problems"]:
                key = "C08:" + p["key"]
                keys_seen[key] += 1
                art = {"kind": kind, "lang": lang, "global_x": gx, "program": p["program"], "class": key,
                       "message": p["msg"], "line_in_standalone_rendering": p["rel_line"]}
                if key not in known_keys and key not in confirmed and len(confirmed) < 20:
                    # reproduce outside the batch before reporting
                    if kind == "scope":
                        one = [p["program"]]
                    elif kind == "overload2":
                        one = [p["program"][0]]
                    else:
                        one = [(tuple(p["program"][0]), p["program"][1])]
                    alone = analyse(kind, lang, gx, one)
                    confirmed[key] = any(q["key"] == p["key"] and (kind != "overload2" or q["program"] == p["program"])
                                         for q in alone["problems"])
                    art["reproduced_standalone"] = confirmed[key]
                ctx.violation(key, "%s: %s" % (describe(kind, p["program"]), p["msg"]), art)
    tot = dict(totals)
    ctx.cov.update({"programs_accepted_by_clang": dict(nprog), "uses_and_calls": tot, "problem_classes_seen": dict(keys_seen),
                    "variable_uses_linked_and_judged": tot.get("var_uses_linked_judged", 0),
                    "calls_linked_and_judged": tot.get("calls_linked_judged", 0)})
    ctx.assumptions = ["reference = clang 14 (-x c++ default standard / -x c), positions from byte offsets",
                       "a declaration = a redeclaration chain (previousDecl) of clang; lambda init-captures have no "
                       "position in clang's JSON, so a use bound to one is only required not to name another declaration",
                       "unlinked uses (no variable/varId/function attribute) are not judged"]
    nfull, nchain = (3, 4) if tier == "quick" else (4, 5)
    return ctx.finish(
        rule="all scope-grammar programs with <= %d scopes plus all %d-scope %s (kinds N S C F O B R I L; per scope: "
             "declaration variant x all meaningful use forms), with and without a global x (quick: the chains only with), "
             "C subset also as C; all "
             "overload sets of size <= 3 over 12 parameter lists x 12 arguments; all two-parameter overload sets (see "
             "module docstring) x 25 argument pairs; batched %d programs per file; "
             "evaluation = one program clang accepts; distinct/nontrivial = a program in which at least one linked "
             "use or call was judged" % (nfull, nchain, "chains" if tier == "quick" else "programs (deadline permitting)",
                                         PER_FILE))
