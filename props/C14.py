"""C14 -- dump output is well-formed and self-consistent.

Exhaustive bounded enumeration + invariant checker (vlib/dumpcheck.py, an xml.etree parse that shares no code with
the producer or with addons/cppcheckdata.py):

  T  every token string of length <= L over a 24-token alphabet, placed in a function body and in a class body,
     as C and as C++ (one tiny file each; hundreds of files per cppcheck invocation)
  U  every string of length <= L2 over a 30-letter alphabet of template-oriented token groups (A<int>, A<A<int>>,
     f<int>, [=], ->, ...) after class/function template declarations
  M  every single-byte substitution (20 special bytes) at every offset of three seed programs ("mutated inputs")
  S  the C08 scope-grammar corpus (all programs with <= 3 scopes, with and without a global x; C subset as C)
  F  samples/** and test/cfg/*.c* with their library/platform options, as C and as C++

Oracle per produced dump: well-formed XML; for every <dump>: ids unique, every id-valued attribute resolves to an
element of the right kind in the same <dump>, link involution/pairing/nesting, AST parent/operand agreement and
acyclicity, varId/variable agreement; then addons/cppcheckdata.py must load the file and give the same graph.
Inputs for which cppcheck emits no <dump> element (syntax errors ...) are outside the quantifier and only counted.
"""
import collections, gc, glob, itertools, os, time
from concurrent.futures import ProcessPoolExecutor
from vlib import build, run, dumpcheck, scopegen
from vlib.core import Ctx, NCPU

ALPHA = ["int", "x", "(", ")", "{", "}", ";", "=", ",", "*", "&", "[", "]", "<", ">", ":", "::", "if", "else",
         "return", "struct", "template", "1", "\"s\""]
CONTEXTS = {"fn": "void f(){ %s }\n", "cls": "struct S { %s };\n"}
# second alphabet: letters are short token groups, placed after template declarations (instantiations, nested >>)
ALPHA2 = ["A<int>", "A<A<int>>", "f<int>", "f", "a", "b", "(", ")", "<", ">", ",", ";", "=", "::", ".", "m", "1", "&&",
          "{", "}", "[", "]", "return", "x", "int", "auto", "[=]", "->", "*", "&"]
CONTEXT2 = ("template<class T> struct A { T m; A<T>* p; T get() const { return m; } };\n"
            "template<class T> T f(T t) { return t; }\nint a, b;\nvoid g() { %s }\n")
BATCH = 480
TEMPLATE = "--template={file}\t{id}\t{severity}"
CRITICAL = ("syntaxError", "internalAstError", "unknownMacro", "cppcheckError", "internalError",
            "preprocessorErrorDirective", "unhandledChar", "cppcheckLimit")

SEEDS = {
    "m1.c": "#define M(a) a+1\nint g=M(2);\nint f(char*p){char b[4]=\"ab\";/*c*/return p?b[1]:'x';}\n",
    "m2.cpp": "struct S{int x;S():x(0){}};\ntemplate<class T>T t(T a){return a;}\nint f(){S s;return t<int>(s.x);}\n",
    "m3.c": "#ifdef A\nint a=1;\n#else\nlong a=2;\n#endif\nint f(void){return (int)a;}\n",
}
MUT_BYTES = [0x00, 0x01, 0x09, 0x0c, 0x0d, 0x1a, 0x7f, 0x80, 0xc3, 0xff] + [ord(c) for c in "<>&\"'\\#?$`"]

CFG_OPTS = {"gnu.c": ["--library=posix,gnu"], "qt.cpp": ["--library=qt"], "mfc.cpp": ["--platform=win64", "--library=mfc"],
            "windows.cpp": ["--platform=win32A", "--library=windows"], "std.c": ["--library=std"],
            "std.cpp": ["--library=std"], "libsigc++.cpp": ["--library=libsigc++"]}
QUICK_MAX_LINES = 1000      # quick tier: corpus files up to this size


# ------------------------------------------------------------------------------------------------------------
def check_dumps(wsdir, names, errs, repo, meta):
    """Check the dump of every input in `names`.  -> (stats, problems[(key, msg, name)], per-file class info)"""
    st = {}
    probs = []
    info = {"inputs": 0, "accepted": 0, "rejected": 0, "no_dump_file": 0, "malformed_rejected": 0}
    for n in names:
        info["inputs"] += 1
        p = os.path.join(wsdir, n + ".dump")
        if not os.path.exists(p):
            info["no_dump_file"] += 1
            continue
        pr, d = dumpcheck.check_file(p, repo, st)
        rejected = bool(errs.get(n)) and (d is None or not d.cfgs)
        if d is None:
            if rejected:
                info["malformed_rejected"] += 1
                continue
        elif not d.cfgs:
            info["rejected"] += 1
            continue
        info["accepted"] += 1
        agg = {}
        for k, m in pr:
            agg.setdefault(k, []).append(m)
        for k, ms in agg.items():
            probs.append((k, "%s (%d instance(s) in this dump)" % (ms[0], len(ms)), n))
    return st, probs, info


_WSN = [0]


def run_batch(job):
    """One cppcheck invocation over many small files + checks.  job = dict(files={name: bytes|str}, args=[...])
    A crash or hang of cppcheck is not a C14 matter (the input was not accepted): the input it stopped at is
    recorded and the files after it are analysed by a follow-up invocation."""
    gc.disable()
    t0 = time.time()
    files = job["files"]
    names = job.get("order") or sorted(files)
    _WSN[0] += 1
    aborted = []
    unprocessed = 0
    errs = {}
    rcs = []
    with run.WS(files, name="p%d_%d" % (os.getpid(), _WSN[0])) as ws:
        remaining = list(names)
        while remaining:
            r = run.cppcheck(["-q", "--dump", TEMPLATE] + job.get("args", []) + remaining, ws.dir,
                             timeout=job.get("timeout", 60 if len(names) > 1 else 900))
            rcs.append(r.rc)
            for line in r.text_err().splitlines():
                parts = line.split("\t")
                if len(parts) == 3 and parts[1] in CRITICAL:
                    errs.setdefault(parts[0], []).append(parts[1])
            if not (r.rc < 0 or r.rc >= 128 or r.timed_out):
                break
            culprit = None
            done = set()
            for n in remaining:
                p = os.path.join(ws.dir, n + ".dump")
                if os.path.exists(p):
                    done.add(n)
                    if culprit is None:
                        try:
                            dumpcheck.ET.parse(p)
                        except dumpcheck.ET.ParseError:
                            culprit = n
                elif n in errs:
                    done.add(n)
            if culprit is None:
                unprocessed = len([n for n in remaining if n not in done])
                aborted.append({"input": "?", "rc": r.rc, "timed_out": r.timed_out, "stderr": r.text_err()[-300:]})
                break
            os.unlink(os.path.join(ws.dir, culprit + ".dump"))
            c = files[culprit]
            aborted.append({"input": c if isinstance(c, str) else c.decode("latin-1"), "name": culprit, "rc": r.rc,
                            "timed_out": r.timed_out})
            remaining = [n for n in remaining if n not in done]
        st, probs, info = check_dumps(ws.dir, [n for n in names if n not in [a.get("name") for a in aborted]], errs,
                                      build.REPO, job)
    info["rc"] = rcs[-1]
    info["aborted_inputs"] = len(aborted)
    info["unprocessed_after_abort"] = unprocessed
    info["secs"] = round(time.time() - t0, 2)
    return {"id": job["id"], "stats": st, "problems": probs, "info": info, "aborted": aborted}


# ------------------------------------------------------------------------------------------------------------
def token_jobs(L, combos):
    """All strings of length <= min(L, 3) for every (context, language) first, then the longer ones per combination
    (so that a deadline cuts the longest strings of the last combinations, never a whole short length)."""
    phases = [(c, 1, min(L, 3)) for c in combos] + [(c, 4, L) for c in combos if L >= 4]
    for (ctxname, lang), lo, hi in phases:
        ext = ".c" if lang == "c" else ".cpp"
        n = 0
        files = {}
        for k in range(lo, hi + 1):
            for t in itertools.product(range(len(ALPHA)), repeat=k):
                files["t%d_%d%s" % (k, n, ext)] = CONTEXTS[ctxname] % " ".join(ALPHA[i] for i in t)
                n += 1
                if len(files) >= BATCH:
                    yield {"id": ["T", ctxname, lang, k, n], "files": files, "args": []}
                    files = {}
        if files:
            yield {"id": ["T", ctxname, lang, hi, n], "files": files, "args": []}


def template_token_jobs(L):
    n = 0
    files = {}
    for k in range(1, L + 1):
        for t in itertools.product(ALPHA2, repeat=k):
            files["u%d.cpp" % n] = CONTEXT2 % " ".join(t)
            n += 1
            if len(files) >= BATCH:
                yield {"id": ["U", n], "files": files, "args": []}
                files = {}
    if files:
        yield {"id": ["U", n], "files": files, "args": []}


def mutation_jobs():
    for name, seed in SEEDS.items():
        base, ext = os.path.splitext(name)
        b = seed.encode()
        files = {}
        for off in range(len(b)):
            for mb in MUT_BYTES:
                if b[off] == mb:
                    continue
                files["%s_%d_%02x%s" % (base, off, mb, ext)] = b[:off] + bytes([mb]) + b[off + 1:]
                if len(files) >= BATCH:
                    yield {"id": ["M", name, off], "files": files, "args": []}
                    files = {}
        if files:
            yield {"id": ["M", name, len(b)], "files": files, "args": []}


def scope_jobs(maxn, per_file=120):
    for lang in ("cpp", "c"):
        progs = [t for n in range(1, maxn + 1) for t in scopegen.programs(n, lang=lang)]
        for gx in (0, 1):
            for i in range(0, len(progs), per_file):
                src, _ = scopegen.render_batch(progs[i:i + per_file], gx, lang, tag0=i)
                name = "s%d_%d.%s" % (gx, i, lang)
                yield {"id": ["S", lang, gx, i], "files": {name: src}, "args": [],
                       "programs": [scopegen.show(t) for t in progs[i:i + per_file]]}


def corpus_jobs(tier):
    repo = build.REPO
    paths = sorted(glob.glob(os.path.join(repo, "samples", "*", "*.c*"))) + \
        sorted(glob.glob(os.path.join(repo, "test", "cfg", "*.c*")))
    for p in paths:
        rel = os.path.relpath(p, repo)
        data = open(p, "rb").read()
        if tier == "quick" and data.count(b"\n") > QUICK_MAX_LINES:
            continue
        base = os.path.basename(p)
        if "/test/cfg/" in p.replace(os.sep, "/"):
            opts = CFG_OPTS.get(base, ["--library=" + os.path.splitext(base)[0]])
        else:
            opts = []
        uniq = rel.replace("/", "__")
        for langopt in ([], ["--language=c++"] if base.endswith(".c") else ["--language=c"]):
            yield {"id": ["F", rel, langopt], "files": {uniq: data}, "args": opts + langopt, "repo_file": rel}


# ------------------------------------------------------------------------------------------------------------
def replay_case(a):
    files = {}
    if "repo_file" in a:
        files[a["name"]] = open(os.path.join(build.REPO, a["repo_file"]), "rb").read()
    else:
        src = a["source"]
        files[a["name"]] = bytes.fromhex(a["source_hex"]) if "source_hex" in a else src
    print("input %s, options %s" % (a["name"], a["args"]))
    if "source" in a:
        print(a["source"])
    res = run_batch({"id": "replay", "files": files, "args": a["args"]})
    print("expected: a well-formed dump without problem class %s" % a.get("class"))
    print("observed: rc=%s info=%s aborted=%s" % (res["info"]["rc"], res["info"], res["aborted"]))
    for k, m, n in res["problems"]:
        print("  %s: %s" % (k, m))
    if not res["problems"]:
        print("  no problems")
    return 0


def main(tier, replay=None):
    ctx = Ctx("C14", tier, "exploration", 900 if tier == "quick" else 2400, replay)
    build.build("plain")
    if replay:
        return replay_case(replay["artefact"])
    L = 3 if tier == "quick" else 4
    combos = [("fn", "cpp"), ("fn", "c"), ("cls", "cpp"), ("cls", "c")]
    L2 = 2 if tier == "quick" else 3
    jobs = itertools.chain(corpus_jobs(tier), mutation_jobs(), scope_jobs(3 if tier == "quick" else 4),
                           template_token_jobs(L2), token_jobs(L, combos))
    totals = {}
    info_tot = {}
    keys_seen = {}
    families = {}
    aborted_inputs = []

    run.scratch_base()          # created before the fork so that the workers share (and the parent removes) it
    with ProcessPoolExecutor(max_workers=max(2, min(NCPU, 14))) as ex:
        window = collections.deque()
        it = iter(jobs)
        done_iter = False

        def submit_more():
            nonlocal done_iter
            while not done_iter and len(window) < 3 * NCPU:
                if ctx.expired():
                    done_iter = True
                    break
                try:
                    j = next(it)
                except StopIteration:
                    done_iter = True
                    break
                window.append((j, ex.submit(run_batch, j)))
        submit_more()
        while window:
            job, fut = window.popleft()
            res = fut.result()
            submit_more()
            fam = job["id"][0]
            families[fam] = families.get(fam, 0) + res["info"]["inputs"]
            for k, v in res["stats"].items():
                totals[k] = totals.get(k, 0) + v
            for k, v in res["info"].items():
                if isinstance(v, int) and not isinstance(v, bool) and k not in ("rc", "secs"):
                    info_tot[k] = info_tot.get(k, 0) + v
            ctx.count(res["info"]["inputs"])
            for n in range(res["info"]["accepted"]):
                ctx.distinct("%s#%d" % (job["id"], n))
            for ab in res["aborted"]:
                # crash / hang: the input was not accepted, so the property does not speak about it (reported in
                # the evidence so that it is not lost)
                ctx.bump("inputs_where_cppcheck_crashed_or_hung")
                if len(aborted_inputs) < 10:
                    aborted_inputs.append(ab)
            for k, m, n in res["problems"]:
                key = "C14:" + k
                art = {"class": key, "name": n, "args": job["args"], "family": fam, "message": m}
                if "repo_file" in job:
                    art["repo_file"] = job["repo_file"]
                else:
                    c = job["files"][n]
                    if isinstance(c, bytes):
                        art["source_hex"] = c.hex()
                        art["source"] = c.decode("latin-1")
                    else:
                        art["source"] = c if len(c) < 20000 else c[:20000]
                        if len(c) >= 20000:
                            art["source_hex"] = c.encode().hex()
                keys_seen[key] = keys_seen.get(key, 0) + 1
                ctx.violation(key, "%s [input %s %s]" % (m, n, " ".join(job["args"])), art)
            if fam == "T" and res["info"]["accepted"] and len([s for s in ctx.samples if s.get("family") == "T"]) < 2:
                ctx.sample({"family": "T", "batch": job["id"], "accepted_in_batch": res["info"]["accepted"],
                            "example_input": next(iter(job["files"].values()))})
            elif fam in ("F", "S", "M") and len([s for s in ctx.samples if s.get("family") == fam]) < 1:
                ctx.sample({"family": fam, "batch": job["id"], "accepted_in_batch": res["info"]["accepted"],
                            "invariant_instances": res["stats"]})
    ctx.cov.update({"inputs_by_family": families, "dump_files": info_tot, "invariant_instances": totals,
                    "problem_classes_seen": keys_seen, "token_alphabet": ALPHA, "max_token_string_length": L,
                    "template_alphabet": ALPHA2, "max_template_string_length": L2,
                    "crashed_or_hung_inputs_not_judged": aborted_inputs})
    ctx.assumptions = ["an input counts as accepted iff cppcheck emitted at least one <dump> element for it",
                       "the null id \"0\" is not a reference",
                       "attributes cppcheckdata.py documents as not modelled (<types>, valueType-containerId, "
                       "template simplifier output) are not part of the graph comparison"]
    return ctx.finish(
        rule="T: all token strings of length <= %d over a %d-token alphabet in function-body and class-body context, "
             "as C and C++; U: all strings of length <= %d over a %d-letter template-oriented alphabet after template "
             "declarations; M: all single-byte substitutions (%d bytes) in %d seed programs; S: all scope-grammar "
             "programs with <= %d scopes (x2 global variable, C subset as C); F: samples/ and test/cfg files with "
             "their libraries in C and C++ mode. evaluation = one input; distinct/nontrivial = an input for which a "
             "<dump> element was emitted and all invariants were evaluated" % (
                 L, len(ALPHA), L2, len(ALPHA2), len(MUT_BYTES), len(SEEDS), 3 if tier == "quick" else 4))
