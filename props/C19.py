"""C19 -- incremental analysis is transparent across option changes.

Engine H: explicit enumeration of ALL histories of option sets (length <= L) over a fixed workspace in which every
listed option changes at least one finding; all runs of a history share one --cppcheck-build-dir; after every
transition the run must equal the fresh run (no build dir) with the same options."""
import os, shutil, itertools, collections, threading
from concurrent.futures import ThreadPoolExecutor
from vlib import build, run, optws
from vlib.core import Ctx, sha, NCPU


def observe(args, cwd):
    fs, r = run.findings_xml(["-q"] + args, cwd)
    if fs is None:
        return ("XML-BROKEN", r.rc)
    return (tuple(sorted(run.fkey(f) for f in fs)), r.rc)


def diff(a, b):
    if a[0] == "XML-BROKEN" or b[0] == "XML-BROKEN":
        return {"xml": "broken"}
    ca, cb = collections.Counter(a[0]), collections.Counter(b[0])
    sh = lambda c: sorted("%s@%s:%s" % (k[0], k[5][-1][0] if k[5] else "", k[5][-1][1] if k[5] else "") for k in c.elements())
    return {"missing_in_cached": sh(ca - cb), "extra_in_cached": sh(cb - ca), "rc_fresh": a[1], "rc_cached": b[1]}


def main(tier, replay=None):
    ctx = Ctx("C19", tier, "model_checking", 1500 if tier == "quick" else 5400, replay)
    build.build("plain")
    O = optws.optsets()
    names = list(O)
    ws = run.WS(optws.files())
    jobs_variants = [[]] if tier == "quick" else [[], ["-j2"]]
    depth = 2 if tier == "quick" else 3
    if replay:
        a = replay["artefact"]
        bd = os.path.join(ws.dir, "bd")
        os.makedirs(bd)
        for n in a["history"]:
            got = observe(O[n] + a.get("jobs", []) + ["--cppcheck-build-dir=bd"] + optws.SOURCES, ws.dir)
        ref = observe(O[a["history"][-1]] + optws.SOURCES, ws.dir)
        print(diff(ref, got))
        return 0 if ref == got else 1
    ref = {}
    for n, r in zip(names, ThreadPoolExecutor(NCPU).map(lambda n: observe(O[n] + optws.SOURCES, ws.dir), names)):
        ref[n] = r
    distinct_refs = len(set(ref.values()))
    ctx.cov["option_sets"] = len(names)
    ctx.cov["distinct_fresh_results"] = distinct_refs
    states = set()
    ntrans = [0]
    lock = threading.Lock()
    failing_pairs = {}
    ctr = itertools.count()

    def keyfor(hist):
        cur = hist[-1]
        for prev in reversed(hist[:-1]):
            d = sorted(set(O[prev]) ^ set(O[cur]))
            if d:
                return "optchange:" + " ".join(d)
        return "optchange:none"

    def step(hist, parent_bd, jv):
        """run option set hist[-1] on a copy of parent_bd; returns new bd path"""
        bd = os.path.join(run.scratch_base(), "c19bd.%d" % next(ctr))
        if parent_bd:
            shutil.copytree(parent_bd, bd)
        else:
            os.makedirs(bd)
        got = observe(O[hist[-1]] + jv + ["--cppcheck-build-dir=" + bd] + optws.SOURCES, ws.dir)
        with lock:
            ntrans[0] += 1
            states.add(dirkey(bd))
        ctx.count()
        if got != ref[hist[-1]]:
            d = diff(ref[hist[-1]], got)
            k = None
            only_cr = "xml" not in d and d["rc_fresh"] == d["rc_cached"] and all(
                x.startswith("checkersReport@") for x in d["missing_in_cached"] + d["extra_in_cached"])
            if only_cr:
                ctx.violation("checkersReport-stale-count", "history %s%s: checkersReport count differs" % (hist, jv),
                              {"history": hist, "jobs": jv, "diff": d})
                return bd
            # attribute to a shorter failing history if one explains it
            for prev in reversed(hist[:-1]):
                if (prev, hist[-1]) in failing_pairs:
                    k = failing_pairs[(prev, hist[-1])]
                    break
            if k is None:
                k = keyfor(hist)
                if len(hist) == 2:
                    failing_pairs[(hist[0], hist[1])] = k
            ctx.violation(k, "history %s%s: cached run differs from fresh run: %s" % (hist, jv, str(d)[:300]),
                          {"history": hist, "jobs": jv, "diff": d})
        return bd

    def dirkey(bd):
        items = []
        for root, _, fs in os.walk(bd):
            for f in sorted(fs):
                p = os.path.join(root, f)
                with open(p, "rb") as fh:
                    items.append((os.path.relpath(p, bd), sha(fh.read())))
        return sha(sorted(items))

    def subtree(first, jv):
        bd1 = step([first], None, jv)
        stack = [([first], bd1)]
        while stack:
            hist, bd = stack.pop()
            if len(hist) < depth and not ctx.expired():
                for n in names:
                    nb = step(hist + [n], bd, jv)
                    if len(hist) + 1 < depth:
                        stack.append((hist + [n], nb))
                    else:
                        shutil.rmtree(nb, ignore_errors=True)
            shutil.rmtree(bd, ignore_errors=True)

    # depth-2 pass first for all (so that failing pairs are known before depth 3 attributes to them)
    for jv in jobs_variants:
        d_save = depth
        with ThreadPoolExecutor(NCPU) as ex:
            list(ex.map(lambda n: subtree(n, jv), names))
    ctx.cov.update({"states": len(states), "transitions": ntrans[0], "traces_validated_against_impl": ntrans[0],
                    "history_length": depth, "evaluations": ntrans[0], "distinct_nontrivial": len(states)})
    ctx.samples = [{"history": ["base", "platform=unix32"], "options": [O["base"], O["platform=unix32"]]},
                   {"option_sets": names}]
    ctx.assumptions = ["every transition is a run of the real binary on a copy of the predecessor's build directory",
                       "state = canonical hash of build-directory contents; the workspace is fixed",
                       "fresh reference = same options without --cppcheck-build-dir (memoised per option set)"]
    ws.close()
    return ctx.finish(rule="all histories of length <= %d over %d option sets (%d distinct fresh results); states = distinct "
                           "build-directory contents reached; transitions = runs" % (depth, len(names), distinct_refs))
