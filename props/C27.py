"""C27 -- severity and certainty options gate findings monotonically.

The WHOLE option lattice: all 32 subsets of --enable={warning,style,performance,portability,information} x
{without, with --inconclusive} = 64 option sets, for every group of a trigger corpus; one run of the real binary per
(group, option set).  A group is a set of files analysed together in one run:
  samples      /repo/samples/*/bad.c*
  handmade     small generated programs with at least one finding of every severity and inconclusive ones
  multi-*      generated (vlib/c27c28_families.py): constructs whose checkers emit several ids of different severities
               for the same argument / statement x a literal-kind alphabet (two-hole constructs: all pairs)
  prov-*       generated: value-dependent checker triggers x provenance of the critical value x operand type
  triggers-N   code snippets mechanically extracted from the check("...") literals of /repo/test/test*.cpp; quick:
               one selection pass (--enable=all --inconclusive) picks, for every distinct (id, severity, certainty)
               kind observed, the first snippet showing it; thorough: every snippet
  cfg:<file>   /repo/test/cfg/<file> with its library (inline suppressions NOT honoured, so the expected findings appear)
Oracle (the statement, nothing more):
  (a) a finding with severity warning/style/performance/portability/information occurs only if that severity is in
      the enabled closure of the option set (--enable=style also enables warning, performance, portability:
      cli/cmdlineparser.cpp:689); a finding marked inconclusive occurs only with --inconclusive;
  (b) along every covering edge S -> S+{x} of the lattice (x a severity or --inconclusive) the set of exact finding
      records (id, severity, certainty, message, verbose message, locations) only grows; where S and S+{x} have the
      same enabled closure the two sets are equal.  Covering edges imply all pairs S <= S'.
checkersReport ("Active checkers: N/M") is a run-level summary of the option set itself, not a finding about the
analysed code: its N legitimately depends on the options, so its message is normalised before comparing (its
presence is still gated and must still be monotone).
"""
import glob, itertools, os, re
from vlib import build, run, testsnippets, c27c28_families
from vlib.core import Ctx, pmap, sha
import time

SEV = ["warning", "style", "performance", "portability", "information"]
GATED = set(SEV)
REPO = build.REPO


def _cppcheck_xml(args, cwd, **kw):
    for attempt in range(60):
        try:
            return run.findings_xml(args, cwd, **kw)
        except OSError:          # binary being relinked by a concurrent build
            time.sleep(0.5)
    return run.findings_xml(args, cwd, **kw)


def closure(s):
    c = set(s)
    if "style" in c:
        c |= {"warning", "performance", "portability"}
    return frozenset(c)


def optsets():
    out = []
    for n in range(len(SEV) + 1):
        for c in itertools.combinations(SEV, n):
            for inc in (False, True):
                out.append((frozenset(c), inc))
    return out


def optargs(o):
    s, inc = o
    a = []
    if s:
        a.append("--enable=" + ",".join(x for x in SEV if x in s))
    if inc:
        a.append("--inconclusive")
    return a


def oname(o):
    return (",".join(x for x in SEV if x in o[0]) or "-") + ("+inconclusive" if o[1] else "")


HANDMADE = {
    "h_port.c": "int fq(int *p){ int a = p; return a + 4; }\n"
                "void fa(void){ char *p = alloca(10); (void)p; }\n"
                "void fsemi(int x){ if (x == 1); { x = 2; } }\n",
    "h_perf.cpp": "#include <string>\nvoid fpv(const std::string s) { (void)s; }\n"
                  "#include <vector>\nint fe(const std::vector<int>& v){ int n = 0; for (std::vector<int>::const_iterator it = v.begin(); it != v.end(); it++) n += *it; return n; }\n",
    "h_err.cpp": "void fs(){ int *p = nullptr; *p = 1; }\nclass C { int x; public: C():x(0){} int get() { return 0; } };\n"
                 "void fb(){ int a[2]; a[2] = 0; }\n",
    "h_style.c": "void fl(void *p){ int *q = (int*)p; (void)q; }\nint fl2(int x){ int y; y = x; y = 2; return 1; }\n"
                 "int fsh(int x){ int y = 1; { int y = 2; x += y; } return x + y; }\n",
    "h_warn.c": "void fw(int *p){ if (p) {} *p = 1; }\nint fdiv(int x){ if (x == 0) {} return 10 / x; }\n"
                "unsigned fu(unsigned x){ if (x < 0) return 1; return 0; }\n",
    "h_info.c": "int fd(int x){ int y = 0; int *p = 0;\n" + "".join("  if (x == %d) y++;\n" % i for i in range(130))
                + "  if (y == 200) { *p = 0; }\n  return y; }\n",
    "h_cfgs.c": "".join("#ifdef M%02d\nvoid c%d(void){int a[2];a[%d]=0;}\n#endif\n" % (i, i, 10 + i) for i in range(14)),
    "h_inc.cpp": "struct S { int a; int b; S() : b(0), a(b) {} };\n"
                 "class B { public: virtual void f(); ~B(); };\nclass D : public B { public: void f(); ~D(); };\n"
                 "void g(B *b){ delete b; }\n"
                 "void h(char *s){ char c[3]; for (int i = 0; s[i]; i++) c[i] = s[i]; (void)c; }\n",
    "h_cast.cpp": "void fc(const char *p){ char *q = (char*)p; long *l = (long*)q; (void)l; }\n"
                  "bool fcmp(float a, float b){ return a == b; }\n"
                  "void fr(int *p){ int &r = *p; if (!p) return; r = 1; }\n",
}

CFG_LIB = {"gnu.c": ["--library=posix,gnu"], "kde.cpp": ["--library=kde", "--library=qt"],
           "windows.cpp": ["--platform=win64", "--library=windows"]}


def cfg_group(name):
    lib = CFG_LIB.get(name) or ["--library=" + name.split(".")[0]]
    return {"name": "cfg:" + name, "files": None, "paths": [os.path.join(REPO, "test", "cfg", name)],
            "extra": ["--platform=unix64"] + lib if name != "windows.cpp" else lib}


def normalise(f):
    k = run.fkey(f)
    if f["id"] == "checkersReport":
        k = (k[0], k[1], k[2], re.sub(r"\d+/\d+", "N/M", k[3] or ""), re.sub(r"\d+/\d+", "N/M", k[4] or ""), k[5])
    return k


def run_group(g, o, ws):
    args = ["-q"] + g["extra"] + optargs(o) + g["paths"]
    fs, r = _cppcheck_xml(args, ws.dir if ws else "/", timeout=g.get("timeout", 600))
    if fs is None or r.timed_out or r.rc not in (0,):
        return None, "rc=%s timed_out=%s xml=%s" % (r.rc, r.timed_out, "unparsable" if fs is None else "ok")
    return set(normalise(f) for f in fs), None


def select_triggers(ctx, snippets, ws, per=300):
    """One pass with everything enabled over all snippets; choose for each (id, severity, certainty) the first file."""
    names = ["s%05d.cpp" % i for i in range(len(snippets))]
    chunks = [names[i:i + per] for i in range(0, len(names), per)]

    def work(ch):
        fs, r = _cppcheck_xml(["-q", "--enable=" + ",".join(SEV), "--inconclusive"] + ch, ws.dir, timeout=900)
        return ch, fs, r
    kinds = {}
    bad = 0
    for ch, fs, r in pmap(work, chunks):
        ctx.bump("selection_runs")
        if fs is None or r.timed_out or r.rc != 0:
            bad += 1
            continue
        for f in fs:
            if not f["locs"]:
                continue
            fn = f["locs"][-1][0]
            if fn not in ch:
                continue
            kinds.setdefault((f["id"], f["severity"], f["inconclusive"]), fn)
    chosen = sorted(set(kinds.values()))
    return chosen, kinds, bad


def main(tier, replay=None):
    ctx = Ctx("C27", tier, "model_checking", 900 if tier == "quick" else 2400, replay)
    build.build("plain")
    osets = optsets()
    snippets = testsnippets.extract()
    groups = []
    with run.WS() as ws:
        for n, c in HANDMADE.items():
            ws.write(n, c)
        for i, (origin, code) in enumerate(snippets):
            ws.write("s%05d.cpp" % i, code)
        gen_groups = []
        for fam, gen, per in (("multi", c27c28_families.multi_severity_files, 34), ("prov", c27c28_families.provenance_files, 12)):
            for lang in (("cpp",) if tier == "quick" else ("cpp", "c")):
                if tier == "quick":     # quick: pairs over the 10 basic literal kinds; operand types int and unsigned
                    gf = gen(lang, small_pairs=True) if fam == "multi" else gen(lang, types=("int", "unsigned"))
                else:
                    gf = gen(lang)
                gf = {n: c for n, c in gf.items() if c.count("\nlong ") > 0}
                for n, c in gf.items():
                    ws.write(n, c)
                gn = sorted(gf)
                for i in range(0, len(gn), per):
                    gen_groups.append({"name": "%s-%s-%d" % (fam, lang, i // per), "paths": gn[i:i + per], "extra": []})
        if replay:
            a = replay["artefact"]
            g = a["group"]
            print("group %s: cppcheck -q %s <options> %s" % (g["name"], " ".join(g["extra"]), " ".join(g["paths"][:6])),
                  "..." if len(g["paths"]) > 6 else "")
            lo_o = (frozenset(a["low"][0]), a["low"][1])
            hi_o = (frozenset(a["high"][0]), a["high"][1])
            lo, err = run_group(g, lo_o, ws)
            print("options %-55s -> %s findings %s" % (" ".join(optargs(lo_o)) or "(none)", len(lo or []), err or ""))
            hi = lo
            if hi_o != lo_o:
                hi, err = run_group(g, hi_o, ws)
                print("options %-55s -> %s findings %s" % (" ".join(optargs(hi_o)) or "(none)", len(hi or []), err or ""))
            print("expected:", a["expected"])
            print("recorded offending records:")
            for x in a["records"][:10]:
                print("   ", x)
            if a["kind"] == "mono":
                still = sorted((lo or set()) - (hi or set()), key=repr)
            else:
                r0 = a["records"][0]
                still = sorted((x for x in (lo or set()) if list(x[:3]) == r0[:3]), key=repr)
            print("observed now: %d offending records" % len(still))
            for x in still[:10]:
                print("   ", x)
            return 1 if still else 0
        groups.append({"name": "samples", "paths": sorted(glob.glob(os.path.join(REPO, "samples", "*", "bad.c*"))),
                       "extra": []})
        groups.append({"name": "handmade", "paths": sorted(HANDMADE), "extra": []})
        if tier == "quick":
            chosen, kinds, bad = select_triggers(ctx, snippets, ws)
            ctx.cov["snippets_extracted"] = len(snippets)
            ctx.cov["finding_kinds_seen_in_selection_pass"] = len(kinds)
            ctx.cov["selection_chunks_unusable"] = bad
            per = 200
            for i in range(0, len(chosen), per):
                groups.append({"name": "triggers-%d" % (i // per), "paths": chosen[i:i + per], "extra": []})
            cfgs = ["posix.c", "boost.cpp", "sqlite3.c"]
        else:
            per = 250
            allf = ["s%05d.cpp" % i for i in range(len(snippets))]
            for i in range(0, len(allf), per):
                groups.append({"name": "snippets-%d" % (i // per), "paths": allf[i:i + per], "extra": []})
            cfgs = sorted(os.path.basename(p) for p in glob.glob(os.path.join(REPO, "test", "cfg", "*.c*")))
        groups = groups[:2] + gen_groups + groups[2:]
        cfg_groups = [cfg_group(n) for n in cfgs]
        # cheap groups first
        groups = groups[:2] + cfg_groups[:1] + groups[2:] + cfg_groups[1:] if tier == "quick" else groups[:2] + cfg_groups + groups[2:]
        tasks = [(gi, o) for gi in range(len(groups)) for o in osets]

        def work(t):
            if ctx.expired():
                return t, None, "deadline"
            s, err = run_group(groups[t[0]], t[1], ws)
            return t, s, err
        results = {}
        for (gi, o), s, err in pmap(work, tasks):
            if err == "deadline":
                continue
            ctx.count()
            if s is None:
                ctx.bump("runs_unusable")
                ctx.cov.setdefault("unusable", []).append("%s %s: %s" % (groups[gi]["name"], oname(o), err))
                continue
            results[(gi, o)] = s
        judge(ctx, groups, osets, results)
    return ctx.finish(
        rule="every group of the corpus (samples; handmade triggers; generated families multi-severity construct x literal "
             "kind (incl. all pairs) and trigger x value provenance x type; %s; test/cfg files %s with their library) x ALL 64 "
             "option sets (32 subsets of --enable=%s x with/without --inconclusive), one run each; oracle (a) on every "
             "finding of every run, oracle (b) on all 192 covering edges per group; distinct/nontrivial = covering edges "
             "whose two finding sets differ (the added option changed what is reported)"
             % ("snippet files selected per finding kind from a selection pass over all extracted test snippets"
                if tier == "quick" else "ALL extracted test snippets in groups of 250 files", ",".join(cfgs), ",".join(SEV)))


def judge(ctx, groups, osets, results):
    sev_seen, inc_seen = {}, 0
    reported = {}

    def violation(key, what, art):
        """one report per class key (the first = smallest option set of the first group); the rest is counted"""
        reported[key] = reported.get(key, 0) + 1
        if reported[key] == 1:
            ctx.violation(key, what, art)
    for gi, g in enumerate(groups):
        have = [o for o in osets if (gi, o) in results]
        if len(have) < len(osets):
            ctx.bump("groups_incomplete")
        # (a) gating
        for o in have:
            en = closure(o[0])
            for k in results[(gi, o)]:
                fid, sev, inc = k[0], k[1], k[2]
                sev_seen[sev] = sev_seen.get(sev, 0) + 1
                inc_seen += 1 if inc else 0
                if sev in GATED and sev not in en:
                    violation("gate:%s:%s" % (fid, sev),
                                  "%s finding %s reported although %s is not enabled (options: %s; group %s)" % (
                                      sev, fid, sev, " ".join(optargs(o)) or "none", g["name"]),
                                  {"kind": "gate", "group": g, "low": [sorted(o[0]), o[1]], "high": [sorted(o[0]), o[1]],
                                   "expected": "no %s finding without --enable=%s" % (sev, sev), "records": [list(k)]})
                if inc and not o[1]:
                    violation("inconclusive-gate:%s" % fid,
                                  "inconclusive finding %s reported without --inconclusive (options: %s; group %s)" % (
                                      fid, " ".join(optargs(o)) or "none", g["name"]),
                                  {"kind": "gate", "group": g, "low": [sorted(o[0]), o[1]], "high": [sorted(o[0]), o[1]],
                                   "expected": "no inconclusive finding without --inconclusive", "records": [list(k)]})
        # (b) monotonicity along covering edges
        for o in have:
            ups = [((o[0] | {x}, o[1]), x) for x in SEV if x not in o[0]]
            if not o[1]:
                ups.append(((o[0], True), "--inconclusive"))
            for o2, x in ups:
                if (gi, o2) not in results:
                    continue
                ctx.bump("edges_checked")
                lo, hi = results[(gi, o)], results[(gi, o2)]
                if lo != hi:
                    ctx.distinct(sha([g["name"], oname(o), x]))
                lost = lo - hi
                same = x != "--inconclusive" and closure(o[0]) == closure(o2[0])
                extra = hi - lo if same else set()
                for k in sorted(lost, key=repr)[:50]:
                    violation("mono:%s:+%s" % (k[0], x),
                                  "finding %s (%s) reported with [%s] is missing or altered with [%s] (group %s): %s" % (
                                      k[0], k[1], " ".join(optargs(o)) or "none", " ".join(optargs(o2)), g["name"], k[3]),
                                  {"kind": "mono", "group": g, "low": [sorted(o[0]), o[1]], "high": [sorted(o2[0]), o2[1]],
                                   "expected": "findings(low) is a subset of findings(high)",
                                   "records": [list(r) for r in sorted(lost, key=repr)[:20]]})
                for k in sorted(extra, key=repr)[:50]:
                    violation("closure:%s:+%s" % (k[0], x),
                                  "[%s] and [%s] enable the same severities but finding %s (%s) is only reported with the "
                                  "latter (group %s): %s" % (" ".join(optargs(o)) or "none", " ".join(optargs(o2)), k[0],
                                                             k[1], g["name"], k[3]),
                                  {"kind": "mono", "group": g, "low": [sorted(o2[0]), o2[1]], "high": [sorted(o[0]), o[1]],
                                   "expected": "equal finding sets for equal enabled closures",
                                   "records": [list(r) for r in sorted(extra, key=repr)[:20]]})
        full = results.get((gi, (frozenset(SEV), True)))
        none = results.get((gi, (frozenset(), False)))
        if full is not None:
            ctx.sample({"group": g["name"], "files": len(g["paths"]), "findings_all_enabled": len(full),
                        "findings_nothing_enabled": len(none) if none is not None else None,
                        "inconclusive_all_enabled": sum(1 for k in full if k[2]),
                        "by_severity_all_enabled": {s: sum(1 for k in full if k[1] == s) for s in ["error"] + SEV}},
                       maxn=40)
            if len(full) == (len(none) if none is not None else -1):
                ctx.bump("groups_vacuous_same_findings_with_everything_enabled")
    ctx.cov["violating_records_per_class"] = reported
    ctx.cov["groups"] = len(groups)
    ctx.cov["option_sets"] = len(osets)
    ctx.cov["finding_records_by_severity_over_all_runs"] = sev_seen
    ctx.cov["inconclusive_finding_records_over_all_runs"] = inc_seen
    ctx.assumptions = [
        "enabled closure read from cli/cmdlineparser.cpp:689-694 (--enable=style adds warning, performance, portability)",
        "checkersReport message normalised (N/M): it summarises the option set, not the code",
        "findings compared as sets of exact records (cppcheck itself drops duplicate records)",
        "a run that crashes, times out or writes unparsable XML is counted as unusable, not judged",
    ]
