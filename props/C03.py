"""C03 -- always-true / always-false verdicts are true.

Bounded exhaustive enumeration of small C functions over two int parameters (each in {-2..3}, all 36 vectors
executed) built from condition atoms and control-flow shapes (grammar G3), analysed in batches by one
`cppcheck --enable=style --xml` run and executed with every condition occurrence probed (vlib/progsem.py).
For every finding whose id/message asserts a definite truth value (or a definite value) for a located expression the
asserted value must equal the value observed at EVERY evaluation in every sanitizer-clean execution.
"""
import itertools, os, re, collections
from concurrent.futures import ProcessPoolExecutor
from vlib import build, run, progsem as P
from vlib.core import Ctx, sha, NCPU

V = lambda n: ("v", n)
N = lambda k: ("n", k)
B = lambda op, l, r: ("b", op, l, r)
ASG = lambda lv, e, op="=": ("=", op, lv, e)
A, Bp, X, R = V("a"), V("b"), V("x"), V("r")
CMPS = ["==", "!=", "<", ">", "<=", ">="]
BATCH = 300
DOM = [-2, -1, 0, 1, 2, 3]
CC_ARGS = ["--enable=style,warning", "--inline-suppr"]
GCC_NOASAN = [f for f in P.GCC_FLAGS if "address" not in f] + ["-fsanitize=undefined"]


def atoms(tier):
    ks = [0, 1] if tier == "quick" else [0, 1, 2]
    for op in CMPS:
        for k in ks:
            yield B(op, A, N(k))
    yield ("u", "!", A)
    yield A
    yield B("==", A, Bp)
    yield B("<", A, Bp)
    if tier != "quick":
        yield B("!=", A, Bp)
    for k in (ks if tier != "quick" else [0]):
        yield B("==", X, N(k))
    if tier != "quick":
        yield B("<", X, A)
    yield B("&", A, N(1))
    if tier != "quick":
        yield B("==", B("%", A, N(2)), N(0))


def mods(tier="thorough"):
    yield None
    yield ("e", ASG(A, N(1)))
    yield ("e", ("post", "++", A))
    if tier != "quick":
        yield ("e", ASG(X, A))
        yield ("e", ASG(Bp, A))


def fn(body, params=(("si", "a"), ("si", "b")), pre=(), **kw):
    d = dict(name="f@", ret="si", params=[tuple(p) for p in params], body=list(body), pre=list(pre))
    d.update(kw)
    return d


SET1, SET2 = ("e", ASG(R, N(1))), ("e", ASG(R, N(2)))
HEAD = [("decl", "si", "x", Bp), ("decl", "si", "r", N(0))]
TAIL = [("ret", B("+", R, X))]


def shapes2(c1, c2, tier="thorough"):
    """all shapes with two conditions"""
    for m in mods(tier):
        mm = [m] if m else []
        yield "nested", HEAD + [("if", c1, mm + [("if", c2, [SET1], None)], None)] + TAIL
        yield "early-return", HEAD + [("if", c1, [("ret", N(0))], None)] + mm + [("if", c2, [SET1], None)] + TAIL
        yield "nested-else", HEAD + [("if", c1, [SET2], mm + [("if", c2, [SET1], None)])] + TAIL
        yield "loop-break", HEAD + [("while", c1, [("if", c2, [("break",)], None)] + (mm or [("e", ("post", "++", A))]) + [("e", ("post", "++", R))])] + TAIL
    yield "else-if", HEAD + [("if", c1, [SET1], [("if", c2, [SET2], None)])] + TAIL
    yield "and", HEAD + [("if", B("&&", c1, c2), [SET1], None)] + TAIL
    yield "or", HEAD + [("if", B("||", c1, c2), [SET1], None)] + TAIL
    yield "ternary", HEAD + [("e", ASG(R, ("?", c1, ("?", c2, N(1), N(2)), N(3))))] + TAIL
    yield "sequential", HEAD + [("if", c1, [SET1], None), ("if", c2, [SET2], None)] + TAIL


def fam_two(tier):
    ats = list(atoms(tier))
    for c1 in ats:
        for c2 in ats:
            for name, body in shapes2(c1, c2, tier):
                yield fn(body, shape=name)


MIRROR = {"<": ">", ">": "<", "<=": ">=", ">=": "<=", "==": "==", "!=": "!="}


def yoda_atoms(tier):
    """constant-on-the-left form of every comparison atom: K == a, K != a, K < a, K <= a, K > a, K >= a"""
    for op in CMPS:
        for k in ([0, 1] if tier == "quick" else [0, 1, 2]):
            yield B(op, N(k), A)


def plain_cmp_atoms(tier):
    for op in CMPS:
        for k in ([0, 1] if tier == "quick" else [0, 1, 2]):
            yield B(op, A, N(k))


def fam_yoda(tier):
    """two-condition shapes in which at least one condition has the constant on the left, mixed with ordinary atoms on the
    same variable (both orders) and with other Yoda atoms; K inside the parameter domain so both sides of K are executed"""
    ys, ps = list(yoda_atoms(tier)), list(plain_cmp_atoms(tier))
    others = ps + ([("u", "!", A), A, B("&", A, N(1)), B("==", A, Bp)] if tier != "quick" else [])
    pairs = [(y, o) for y in ys for o in others] + [(o, y) for y in ys for o in others] + [(y1, y2) for y1 in ys for y2 in ys]
    keep = ("nested", "early-return", "else-if", "and", "or") if tier == "quick" else None
    for c1, c2 in pairs:
        for name, body in shapes2(c1, c2, "quick" if tier == "quick" else tier):
            if keep and name not in keep:
                continue
            if tier == "quick" and body != next(b_ for n_, b_ in shapes2(c1, c2, "quick") if n_ == name):
                continue            # quick: only the variant without a modifier between the conditions
            yield fn(body, shape="yoda-" + name)
    hdef = ("func", dict(name="h@", ret="si", params=[("si", "v")], body=[("ret", B("+", V("v"), N(1)))]))
    for y in ys:
        for k in [0, 1, 2]:
            yield fn(HEAD + [("e", ASG(A, N(k))), ("if", y, [SET1], None)] + TAIL, shape="yoda-after-const")
            yield fn(HEAD + [("e", ASG(A, N(k))), ("ret", y)], shape="yoda-return-cond")
        yield fn(HEAD + [("e", ASG(R, ("call", "h@", (y,), "int")))] + TAIL, pre=[hdef], shape="yoda-arg")
        yield fn(HEAD + [("while", y, [("e", ("post", "++", A)), ("e", ("post", "++", R))])] + TAIL, shape="yoda-loop")


def fam_three(tier):
    ats = [a for a in atoms("quick")]
    for c1 in ats:
        for c2 in ats:
            for c3 in ats:
                yield fn(HEAD + [("if", c1, [("if", c2, [("if", c3, [SET1], None)], None)], None)] + TAIL, shape="nested3")
                yield fn(HEAD + [("if", c1, [("ret", N(0))], None), ("if", c2, [("ret", N(1))], None), ("if", c3, [SET1], None)] + TAIL, shape="early3")
                yield fn(HEAD + [("if", c1, [SET1], [("if", c2, [SET2], [("if", c3, [("e", ASG(R, N(3)))], None)])])] + TAIL, shape="elseif3")
                yield fn(HEAD + [("if", B("&&", B("&&", c1, c2), c3), [SET1], None)] + TAIL, shape="and3")
                yield fn(HEAD + [("if", B("||", B("||", c1, c2), c3), [SET1], None)] + TAIL, shape="or3")
                yield fn(HEAD + [("if", B("||", B("&&", c1, c2), c3), [SET1], None)] + TAIL, shape="andor")
                yield fn(HEAD + [("if", c1, [("if", B("&&", c2, c3), [SET1], None)], None)] + TAIL, shape="nested-and")


def fam_one(tier):
    """single conditions after assignments of known values, in loops, and as call arguments (knownArgument)"""
    ks = [0, 1, 2]
    hdef = ("func", dict(name="h@", ret="si", params=[("si", "v")], body=[("ret", B("+", V("v"), N(1)))]))
    for c in atoms("thorough"):
        for k in ks:
            yield fn(HEAD + [("e", ASG(A, N(k))), ("if", c, [SET1], None)] + TAIL, shape="after-const")
            yield fn(HEAD + [("e", ASG(A, N(k))), ("e", ASG(R, c))] + TAIL, shape="assign-cond")
            yield fn(HEAD + [("e", ASG(A, N(k))), ("ret", c)], shape="return-cond")
            yield fn(HEAD + [("for", ("e", ASG(A, N(0))), B("<", A, N(k)), ("post", "++", A), [("if", c, [SET1], None)])] + TAIL, shape="for")
        yield fn(HEAD + [("e", ASG(R, ("call", "h@", (c,), "int")))] + TAIL, pre=[hdef], shape="arg")
    for op in ["+", "-", "*", "&", "|", "^", "%", "/", "<<", ">>"]:
        for k in [0, 1, 2]:
            yield fn(HEAD + [("e", ASG(R, ("call", "h@", (B(op, A, N(k)),), "int")))] + TAIL, pre=[hdef], shape="arg-arith")
            yield fn(HEAD + [("e", ASG(R, ("call", "h@", (B(op, A, A),), "int")))] + TAIL, pre=[hdef], shape="arg-arith")
            yield fn(HEAD + [("e", ASG(X, N(k))), ("e", ASG(R, ("call", "h@", (B(op, A, X),), "int")))] + TAIL, pre=[hdef], shape="arg-arith")


def fam_narrow(tier):
    """comparisons of narrow / unsigned types with constants at and beyond the type's range"""
    q = tier == "quick"
    for t, ks in (("uc", [-1, 0, 1, 255, 256, 300]), ("sc", [-129, -128, 0, 127, 128]), ("us", [-1, 0, 65535, 65536]),
                  ("ui", [-1, 0, 1]), ("b", [-1, 0, 1, 2]), ("ss", [-32769, -32768, 32767, 32768])):
        for k in ks:
            for op in CMPS:
                for flip in (False, True):
                    c = B(op, N(k), V("u")) if flip else B(op, V("u"), N(k))
                    yield fn([("decl", "si", "r", N(0)), ("if", c, [SET1], None), ("ret", R)], params=[(t, "u"), ("si", "b")], shape="narrow-param")
                    if not q or not flip:
                        yield fn([("decl", t, "w", V("a")), ("decl", "si", "r", N(0)), ("if", B(op, V("w"), N(k)) if not flip else B(op, N(k), V("w")), [SET1], None), ("ret", R)],
                                 shape="narrow-local", domains={"a": P.BASE_DOMAIN})
                        yield fn([("decl", "si", "r", N(0)), ("if", B(op, B("&", A, N(k & 0xff)), N(k)) if not flip else B(op, N(k), B("&", A, N(7))), [SET1], None), ("ret", R)],
                                 shape="bitand-compare")
                        yield fn([("decl", "si", "r", N(0)), ("if", B(op, B("%", A, N(3)), N(k)) if not flip else B(op, N(k), B("%", V("u"), N(3))), [SET1], None), ("ret", R)],
                                 params=[("si", "a"), ("ui", "u")], shape="modulo-compare")


FAMILIES = [("two", fam_two), ("one", fam_one), ("narrow", fam_narrow), ("yoda", fam_yoda), ("three", fam_three)]
QUICK = ("two", "one", "narrow", "yoda")

# ---- interpretation of findings ---------------------------------------------------------------------------------------
RE_ALWAYS = re.compile(r"is always (true|false)")
RE_KARG = re.compile(r"^Argument '(.*)' to function .* is always (-?\d+)")


def claims(f):
    """-> list of (line, col, expected: ('truth', bool) | ('value', n), how) or None when the finding makes no definite
    claim that this driver knows how to read (counted as skipped)."""
    fid, msg, locs = f["id"], f["msg"], f["locs"]
    prim = locs[0] if locs else None

    def by_info(sub):
        for l in locs:
            if sub in l[3]:
                return l
        return None
    if fid == "knownConditionTrueFalse":
        m = RE_ALWAYS.search(msg)
        if m and prim:
            return [(prim[1], prim[2], ("truth", m.group(1) == "true"), "message")]
    if fid in ("comparisonError", "compareValueOutOfTypeRangeError", "incorrectLogicOperator"):
        m = RE_ALWAYS.search(msg) or re.search(r"always evaluates to (true|false)", msg)
        if m and prim:
            return [(prim[1], prim[2], ("truth", m.group(1) == "true"), "message")]
    if fid == "oppositeInnerCondition":
        l = by_info("opposite inner condition")
        if l:
            return [(l[1], l[2], ("truth", False), "inner condition of an opposite outer condition")]
    if fid == "identicalInnerCondition":
        l = by_info("identical inner condition")
        if l:
            return [(l[1], l[2], ("truth", True), "inner condition identical to the outer one")]
    if fid == "identicalConditionAfterEarlyExit":
        l = by_info("Testing identical condition")
        if l:
            return [(l[1], l[2], ("truth", False), "second identical condition after early exit")]
    if fid == "multiCondition":
        m = RE_ALWAYS.search(msg)
        if m and prim:
            return [(prim[1], prim[2], ("truth", m.group(1) == "true"), "else-if condition matching / opposite to a previous condition")]
    if fid == "knownArgument":
        m = RE_KARG.match(msg)
        if m and prim:
            return [(prim[1], prim[2], ("value", int(m.group(2))), "message")]
    if fid == "unsignedLessThanZero" and prim:
        return [(prim[1], prim[2], ("truth-if-strict", False), "unsigned expression compared < 0")]
    if fid == "unsignedPositive" and prim:
        return [(prim[1], prim[2], ("truth-if-nonstrict", True), "unsigned expression compared >= 0")]
    if fid == "moduloAlwaysTrueFalse" and prim:
        return [(prim[1], prim[2], ("constant", None), "comparison of a modulo result is predetermined")]
    if fid == "redundantCondition" and prim:
        m = re.search(r"The condition '(.*)' is redundant since '(.*)' is sufficient", msg)
        if m:
            return [(prim[1], prim[2], ("redundant", (m.group(1), m.group(2))), "redundant operand is true whenever the sufficient one is")]
    return None


TRUTH_IDS = ("knownConditionTrueFalse", "comparisonError", "compareValueOutOfTypeRangeError", "incorrectLogicOperator",
             "oppositeInnerCondition", "identicalInnerCondition", "identicalConditionAfterEarlyExit", "multiCondition",
             "knownArgument", "unsignedLessThanZero", "unsignedPositive", "redundantCondition", "duplicateCondition",
             "moduloAlwaysTrueFalse", "badBitmaskCheck", "mismatchingBitAnd", "duplicateExpression", "knownConditionTrueFalse")


def judge(b, r, samples=None):
    cnt = collections.Counter()
    viols = []
    for f in r.findings:
        fid = f["id"]
        cnt["finding:" + fid] += 1
        cl = claims(f)
        if cl is None:
            if fid in TRUTH_IDS:
                cnt["skipped_claim_not_read:" + fid] += 1
            continue
        for line, col, exp, how in cl:
            occs = r.bypos.get((line, col)) or []
            o = None
            for x in occs:
                if x.kind in ("rv", "lit"):
                    o = x
            if o is None:
                cnt["skipped_location_not_an_expression:" + fid] += 1
                continue
            isc = lambda x: x.node is not None and x.node[0] == "b" and x.node[1] in CMPS
            if fid in ("comparisonError", "compareValueOutOfTypeRangeError") and not isc(o):
                # located at an operand; the verdict is about the enclosing comparison
                o = r.occs[o.parent] if o.parent is not None else None
                if o is None or not isc(o):
                    cnt["skipped_location_not_an_expression:" + fid] += 1
                    continue
            if exp[0] in ("truth-if-strict", "truth-if-nonstrict"):
                # `u < 0` / `0 > u` is claimed false, `u >= 0` / `0 <= u` true; for <= / > forms the message makes no claim
                if not isc(o):
                    cnt["skipped_claim_not_read:" + fid] += 1
                    continue
                op, l, rr = o.node[1], o.node[2], o.node[3]
                zero_right = rr[0] == "n" and rr[1] == 0
                zero_left = l[0] == "n" and l[1] == 0
                strict = (op == "<" and zero_right) or (op == ">" and zero_left)
                nonstrict = (op == ">=" and zero_right) or (op == "<=" and zero_left)
                if (exp[0] == "truth-if-strict" and not strict) or (exp[0] == "truth-if-nonstrict" and not nonstrict):
                    cnt["skipped_no_definite_claim:" + fid] += 1
                    continue
                exp = ("truth", exp[1])
            if exp[0] == "redundant":
                red, suf = [t.replace(" ", "") for t in exp[1]]
                kids = [r.occs[c] for c in o.children]
                if not (o.node[0] == "b" and o.node[1] == "&&" and len(kids) == 2 and kids[0].text.replace(" ", "").strip("()") == suf
                        and kids[1].text.replace(" ", "").strip("()") == red):
                    cnt["skipped_not_observable:" + fid] += 1
                    continue
                o = kids[1]
                exp = ("truth", True)
            obs = b.values(r, o.id)
            if not obs:
                cnt["claim_on_unevaluated_expression:" + fid] += 1
                continue
            cnt["judged"] += 1
            cnt["judged:" + fid] += 1
            if samples is not None and not samples:
                samples.append({"program": r.plain, "finding": "%s: %s" % (fid, f["msg"]), "expression": o.text, "asserted": list(exp),
                                "observed_values": sorted(set(x[0] for x in obs))[:8], "clean_executions": r.clean})
            bad = None
            if exp[0] == "constant":
                tv = sorted(set(bool(val) for val, s, first, n in obs))
                if len(tv) > 1:
                    bad = (tv, obs[0][2])
            else:
                for val, s, first, n in obs:
                    ok = (bool(val) == exp[1]) if exp[0] == "truth" else (val == exp[1])
                    if not ok:
                        bad = (val, first)
                        break
            if bad:
                viols.append({"id": fid, "msg": f["msg"], "line": line - r.line0 + 1, "col": col, "expr": o.text, "expected": list(exp),
                              "how": how, "observed": bad[0], "vec": b.vector(r, bad[1]), "node": o.node[0],
                              "op": o.node[1] if o.node[0] in ("b", "u") else None})
    return viols, cnt


def work(args):
    fam, fns = args
    b = P.Batch(fns, cc_args=CC_ARGS, want_xml=True, small=True, domains={"si": DOM}, gcc_flags=GCC_NOASAN)
    try:
        b.run_all()
    except (RuntimeError, OSError) as ex:
        return {"error": str(ex)[:2000], "fam": fam}
    cnt = collections.Counter()
    viols, summ = [], []
    samples = {}
    for r, _ in b.res:
        so = []
        vs, c = judge(b, r, so)
        for sm in so:
            samples.setdefault(sm["finding"].split(":")[0], sm)
        cnt.update(c)
        cnt["functions"] += 1
        cnt["executions"] += r.nvec
        cnt["clean_executions"] += r.clean
        if not c.get("judged"):
            cnt["vacuous_functions"] += 1
        summ.append(c.get("judged", 0))
        for v in vs:
            v.update({"fn": P.untup(r.fn), "plain": r.plain, "family": fam, "shape": r.fn.get("shape")})
            v["key"] = classify(v)
            viols.append(v)
    return {"cnt": dict(cnt), "viols": viols, "summ": summ, "t": b.t, "fam": fam, "samples": list(samples.values())}


def classify(v):
    """Class key of a refuted verdict; listed classes (known_findings.json) carry an explanation check."""
    if v["id"] == "redundantCondition":
        m = re.search(r"The condition '\w+ (\S+) -?\d+' is redundant since '\w+ (\S+) -?\d+' is sufficient", v["msg"])
        if m and sorted(m.groups()) in (["<", "<="], [">", ">="]):
            return "redundantCondition-strict-nonstrict-pair-names-wrong-operand"
    if v["id"] == "compareValueOutOfTypeRangeError" and re.search(r"type 'unsigned (int|long|long long)' against value -\d+", v["msg"]):
        return "compareValueOutOfTypeRange-unsigned-vs-negative-constant"
    if v["id"] == "comparisonError" and re.match(r"^\(?-?\d+\)? (<|<=|>|>=) ", v["expr"]):
        return "comparisonError-constant-on-left-operator-not-mirrored"
    return "unclassified:%s:%s:%s" % (v["id"], v["shape"], v["expected"][1])


def replay(rep):
    a = rep["artefact"]
    f = P.tup(a["fn"])
    b = P.Batch([f], cc_args=CC_ARGS, want_xml=True, small=True, domains={"si": DOM}, gcc_flags=GCC_NOASAN)
    b.run_all()
    r = b.res[0][0]
    print("---- program P ----")
    for i, l in enumerate(r.plain):
        print("%3d  %s" % (i + 1, l))
    print("---- recorded ----")
    print("%s at %d:%d `%s`: %s -> expected %s (%s); observed %s for input %s" % (a["id"], a["line"], a["col"], a["expr"], a["msg"], a["expected"],
                                                                            a["how"], a["observed"], a["vec"]))
    print("---- now ----")
    for f_ in r.findings:
        print("  finding:", run.fshort(f_))
    vs, c = judge(b, r)
    print("executions %d, sanitizer-clean %d" % (r.nvec, r.clean))
    for v in vs:
        print("REFUTED: %s at %d:%d `%s` expected %s observed %s for input %s" % (v["id"], v["line"], v["col"], v["expr"], v["expected"], v["observed"], v["vec"]))
    print("expected: every verdict holds; observed: %s" % ("refuted" if vs else "all hold"))
    return 1 if vs else 0


def main(tier, replay_=None):
    ctx = Ctx("C03", tier, "model_checking", 600 if tier == "quick" else 1700, replay_)
    build.build("plain")
    if replay_:
        return replay(replay_)
    only = os.environ.get("C03_FAMILIES")
    limit = int(os.environ.get("C03_LIMIT", "0"))
    seen = set()
    totals = collections.Counter()
    famcount = collections.Counter()
    errors = []

    def batches():
        for name, gen in FAMILIES:
            if only and name not in only.split(","):
                continue
            if tier == "quick" and name not in QUICK and not only:
                continue
            cur = []
            for f in gen(tier):
                key = sha([f["params"], f["body"], f["pre"]])
                if key in seen:
                    totals["duplicates_removed"] += 1
                    continue
                seen.add(key)
                famcount[name] += 1
                cur.append(f)
                if limit and famcount[name] >= limit:
                    break
                if len(cur) >= BATCH:
                    yield (name, cur)
                    cur = []
            if cur:
                yield (name, cur)

    with ProcessPoolExecutor(max_workers=max(2, NCPU - 2)) as ex:
        pending, it, done_iter = [], batches(), False
        while True:
            while not done_iter and len(pending) < NCPU and not ctx.expired():
                try:
                    pending.append(ex.submit(work, next(it)))
                except StopIteration:
                    done_iter = True
            if not pending:
                break
            res = pending.pop(0).result()
            if "error" in res:
                errors.append(res)
                print("ENGINE-ERROR family=%s: %s" % (res["fam"], res["error"][:800]), flush=True)
                continue
            totals.update(res["cnt"])
            ctx.count(res["cnt"].get("clean_executions", 0))
            totals["nontrivial"] += sum(1 for j in res["summ"] if j)
            for sm in res.get("samples", []):
                fid_ = sm["finding"].split(":")[0]
                if not any(x["finding"].split(":")[0] == fid_ for x in ctx.samples):
                    ctx.sample(sm, maxn=12)
            for v in res["viols"]:
                what = "%s: %s at %d:%d `%s` (%s) asserts %s, observed %s for input %s\n%s" % (
                    v["key"], v["id"], v["line"], v["col"], v["expr"], v["msg"], v["expected"], v["observed"], v["vec"], "\n".join(v["plain"]))
                ctx.violation(v["key"], what, v)
            if ctx.expired() and not done_iter:
                done_iter = True
    for k, v in sorted(totals.items()):
        ctx.cov[k] = v
    ctx.cov["distinct_nontrivial"] = totals["nontrivial"]
    ctx.cov["functions_per_family"] = dict(famcount)
    ctx.cov["engine_errors"] = len(errors)
    if errors:
        ctx.nviol += 1
        print("VIOLATION property=C03 replay=- (engine error, see above)")
    return ctx.finish(
        rule="all functions of grammar G3 (families %s; two-condition shapes x modifiers x atom pairs, single conditions after constants / in "
             "loops / as arguments, narrow-type comparisons; thorough adds three-condition shapes), 36 input vectors each; evaluations = "
             "sanitizer-clean executions; distinct_nontrivial = distinct functions with >= 1 judged verdict" % [n for n, _ in FAMILIES])
