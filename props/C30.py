"""C30 -- library configuration semantics are applied as declared.

Reference = man/reference-cfg-format.md, "Value range": <valid> is a comma list of items  v | a:b | :b | a:  over
integers and floats; a constant argument is invalid iff it lies in no item.

(a) seam   in-process harness native/valid_enum.cpp (Library::load of a generated cfg + isIntArgValid/isFloatArgValid):
           ALL expressions with <= 3 items over the bound set x ALL integer arguments -4..12 and float arguments
           -4..12 on a 0.25 grid, compared with the reference.
(b) cli    all 1- and 2-item expressions, one function per expression, calls with constant arguments, many
           functions per run of the real binary: invalidFunctionArg exactly when the reference says invalid;
           <not-null/> and <not-bool/> with the argument forms of DESIGN.md.
(c) load   complete single-edit neighbourhood of a seed cfg holding every element/attribute kind of
           cfg/cppcheck-cfg.rng, and every shipped cfg, loaded in-process with the ASan+UBSan objects:
           success or an error code, never a signal / sanitizer report / escaping exception.
"""
import copy, glob, itertools, os, re, subprocess, sys, time
import xml.etree.ElementTree as ET
from fractions import Fraction as Fr
from vlib import build, run
from vlib.core import Ctx, pmap, NCPU
from vlib.c30_seed import SEED

REPO = build.REPO
BOUNDS = ["-2", "-1", "0", "1", "2", "10", "-1.5", "0.5", "2.5"]
INTS = [Fr(i) for i in range(-4, 13)]
FLOATS = [Fr(i, 4) for i in range(-16, 49)]            # -4.0 .. 12.0 step 0.25 (harness uses the same grid)
ARGS = [("int", x) for x in INTS] + [("float", x) for x in FLOATS]
NARG = len(ARGS)


# ------------------------------------------------------------------------------------------------ reference
BOUNDS_Q3 = ["-1", "0", "2", "-1.5", "0.5"]               # quick tier: bound set of the 3-item level


def items(bounds=None):
    """The four documented item forms over the bounds.  'a:b' with a > b is not enumerated: the reference text only
    describes 'all values between a and b' and does not say what a reversed range means."""
    bounds = bounds or BOUNDS
    out = list(bounds)
    out += [a + ":" + b for a in bounds for b in bounds if Fr(a) <= Fr(b)]
    out += [":" + b for b in bounds]
    out += [a + ":" for a in bounds]
    return out


def item_pred(it):
    if ":" in it:
        a, b = it.split(":")
        lo = Fr(a) if a else None
        hi = Fr(b) if b else None
        return lambda x: (lo is None or x >= lo) and (hi is None or x <= hi)
    v = Fr(it)
    return lambda x: x == v


def ref_valid(expr, x):
    return any(item_pred(it)(x) for it in expr.split(","))


def mask_of(it):
    m = 0
    p = item_pred(it)
    for _, x in ARGS:
        m = (m << 1) | (1 if p(x) else 0)
    return m


def fmt(x):
    return str(int(x)) if x.denominator == 1 else str(float(x))


def shape(expr):
    s = []
    for it in expr.split(","):
        if ":" in it:
            a, b = it.split(":")
            s.append(("F" if "." in a else "I" if a else "") + ":" + ("F" if "." in b else "I" if b else ""))
        else:
            s.append("F" if "." in it else "I")
    return ",".join(s)


def classify(expr, kind, x, expected_valid):
    """Class key of one disagreement (expression, argument kind, argument value)."""
    if expected_valid:
        its = expr.split(",")
        int_single = [it for it in its if ":" not in it and "." not in it and Fr(it) == x]
        others = [it for it in its if not (":" not in it and "." not in it) and item_pred(it)(x)]
        if int_single and not others:
            if kind == "int" and "." in expr:
                return "valid:int-arg:integer-item-ignored-when-list-has-float"
            if kind == "float":
                return "valid:float-arg:integer-item-ignored"
        return "valid:%s-arg:reported-although-in-range:%s" % (kind, shape(expr))
    return "valid:%s-arg:not-reported-although-out-of-range:%s" % (kind, shape(expr))


# ------------------------------------------------------------------------------------------------ harness
def harness(variant):
    """(Re)build native/valid_enum.cpp against the objects of a variant when they are newer than the binary."""
    d = os.path.join(build.BUILD, variant, "lib")
    objs = sorted(glob.glob(os.path.join(d, "CMakeFiles/cppcheck-core.dir/**/*.o"), recursive=True))
    libs = [os.path.join(d, "libsimplecpp.a"), os.path.join(d, "libtinyxml2.a")]
    src = os.path.join(build.ROOT, "native", "valid_enum.cpp")
    outd = os.path.join(build.BUILD, "harness")
    os.makedirs(outd, exist_ok=True)
    exe = os.path.join(outd, "valid_enum." + variant)
    newest = max(os.path.getmtime(p) for p in objs + libs + [src])
    if os.path.exists(exe) and os.path.getmtime(exe) > newest:
        return exe
    cxx, _, flags, ldflags, _ = build.VARIANTS[variant]
    cmd = [cxx, "-std=c++11", "-w", "-DNDEBUG", "-D" + build.GUARD] + flags.split() + ldflags.split() + \
          ["-I" + d, "-I" + REPO + "/lib", "-I" + REPO + "/externals/tinyxml2", "-I" + REPO + "/externals/simplecpp",
           "-I" + REPO + "/externals/picojson", src] + objs + libs + ["-lpthread", "-o", exe + ".tmp%d" % os.getpid()]
    p = subprocess.run(cmd, stdout=subprocess.PIPE, stderr=subprocess.STDOUT)
    if p.returncode != 0:
        sys.stderr.write("BUILD-ERROR: harness valid_enum.%s: %s\n" % (variant, p.stdout.decode()[-2000:]))
        raise SystemExit(2)
    os.replace(exe + ".tmp%d" % os.getpid(), exe)
    return exe


HENV = dict(os.environ, LC_ALL="C", ASAN_OPTIONS="detect_leaks=0:abort_on_error=0", UBSAN_OPTIONS="print_stacktrace=1")


def run_valid(exe, exprs):
    p = subprocess.run([exe, "valid"], input=("\n".join(exprs) + "\n").encode(), stdout=subprocess.PIPE,
                       stderr=subprocess.PIPE, env=HENV)
    res = {}
    for l in p.stdout.decode().splitlines():
        t = l.split(" ")
        if t[0] == "V":
            res[t[1]] = int(t[2] + t[3], 2)
        elif t[0] == "E":
            res[t[1]] = None
    return res, p.returncode, p.stderr.decode("utf-8", "replace")[-1500:]


# ------------------------------------------------------------------------------------------------ (a) seam
def part_seam(ctx, exe, tier):
    its = items()
    its3 = items(BOUNDS_Q3) if tier == "quick" else its
    masks = {it: mask_of(it) for it in its}
    full = (1 << NARG) - 1

    def exprs():
        for n in (1, 2):
            for c in itertools.product(its, repeat=n):
                yield c
        for c in itertools.product(its3, repeat=3):
            yield c

    def chunks(size=4000):
        buf = []
        for c in exprs():
            buf.append(c)
            if len(buf) == size:
                yield buf
                buf = []
        if buf:
            yield buf

    def work(chunk):
        if ctx.expired():
            return chunk, None
        return chunk, run_valid(exe, [",".join(c) for c in chunk])

    for chunk, out in pmap(work, chunks()):
        if out is None:
            continue
        res, rc, err = out
        if rc != 0:
            culprit = next((",".join(c) for c in chunk if ",".join(c) not in res), "?")
            ctx.violation("seam-harness-died:" + shape(culprit), "harness exit %s at <valid>%s</valid>: %s" % (rc, culprit, err[-300:]),
                          {"part": "seam", "expr": culprit, "stderr": err})
        for c in chunk:
            e = ",".join(c)
            if e not in res:
                continue
            ctx.count(NARG)
            ctx.bump("seam_expressions")
            exp = 0
            for it in c:
                exp |= masks[it]
            if exp == full:
                ctx.bump("seam_vacuous_all_arguments_valid")
            else:
                ctx.distinct("seam|" + e)
            got = res[e]
            if got is None:
                ctx.violation("valid:load-refused:" + shape(e), "documented expression <valid>%s</valid> refused by Library::load" % e,
                              {"part": "seam", "expr": e})
                continue
            if got == exp:
                continue
            diff = got ^ exp
            seen = set()
            for i, (kind, x) in enumerate(ARGS):
                bit = 1 << (NARG - 1 - i)
                if diff & bit:
                    ev = bool(exp & bit)
                    key = classify(e, kind, x, ev)
                    ctx.bump("seam_disagreeing_evaluations")
                    if key in seen:
                        continue
                    seen.add(key)
                    ctx.violation(key, "<valid>%s</valid> %s argument %s: reference %s, Library says %s" % (
                        e, kind, klit(kind, x), "valid" if ev else "invalid", "invalid" if ev else "valid"),
                        {"part": "seam", "expr": e, "kind": kind, "arg": klit(kind, x), "expected_valid": ev})
    ctx.sample({"part": "seam", "expr": "0,2:10", "int_args_valid": [fmt(x) for x in INTS if ref_valid("0,2:10", x)]}, maxn=8)


# ------------------------------------------------------------------------------------------------ (b) cli
CLI_K = [("int", Fr(i)) for i in range(-4, 13)] + [("float", Fr(s)) for s in (
    "-2.25", "-2.0", "-1.75", "-1.5", "-1.25", "0.0", "0.25", "0.5", "0.75", "1.0", "2.5", "2.75", "10.0", "10.25")]


def klit(kind, x):
    return str(int(x)) if kind == "int" else repr(float(x))


def cli_batch(exprs, form="const", ext="c"):
    cfg = ['<?xml version="1.0"?>', "<def>"]
    src = []
    where = {}
    for i, e in enumerate(exprs):
        cfg.append('<function name="f%d"><arg nr="1"><valid>%s</valid></arg></function>' % (i, e))
        for kind, x in CLI_K:
            ln = len(src) + 1
            if form == "const":
                src.append("void t%d(void){ f%d(%s); }" % (ln, i, klit(kind, x)))
            else:
                src.append("void t%d(void){ %s x = %s; f%d(x); }" % (ln, "int" if kind == "int" else "double", klit(kind, x), i))
            where[ln] = (e, kind, x)
    cfg.append("</def>")
    return "\n".join(cfg) + "\n", "\n".join(src) + "\n", where


RE_F = re.compile(r"^(\d+):(\w+)$", re.M)


def cppcheck_retry(args, cwd, **kw):
    """run.cppcheck, repeated when the binary is momentarily not executable (another check relinking the shared variant)."""
    for attempt in range(30):
        try:
            return run.cppcheck(args, cwd, **kw)
        except OSError:
            if attempt == 29:
                raise
            time.sleep(2)
            build.build(kw.get("variant", "plain"))


def run_cli_batch(exprs, form, ext):
    cfg, src, where = cli_batch(exprs, form, ext)
    with run.WS({"v.cfg": cfg, "t." + ext: src}) as ws:
        r = cppcheck_retry(["-q", "--library=v.cfg", "--template={line}:{id}", "t." + ext], ws.dir, timeout=600)
    rep = {}
    for ln, fid in RE_F.findall(r.text_err()):
        rep.setdefault(int(ln), set()).add(fid)
    return where, rep, r


def part_cli(ctx, tier):
    its = items()
    exprs = list(its) + [a + "," + b for a in its for b in its]
    forms = [("const", "c")] if tier == "quick" else [("const", "c"), ("var", "c"), ("const", "cpp")]
    batches = [(exprs[i:i + 200], f, x) for f, x in forms for i in range(0, len(exprs), 200)]

    def work(b):
        if ctx.expired():
            return b, None
        return b, run_cli_batch(*b)

    for b, out in pmap(work, batches):
        if out is None:
            continue
        where, rep, r = out
        ctx.bump("cli_runs")
        if r.rc != 0 or r.timed_out:
            ctx.violation("cli:exit-status", "batch run exit %s" % r.rc, {"part": "cli", "exprs": b[0][:3], "form": b[1], "ext": b[2],
                                                                         "stderr": r.text_err()[-1500:]})
            continue
        for ln, (e, kind, x) in where.items():
            ctx.count()
            ev = ref_valid(e, x)
            got_invalid = "invalidFunctionArg" in rep.get(ln, ())
            if not ev:
                ctx.bump("cli_calls_expected_invalid")
                ctx.distinct("cli|%s|%s|%s" % (e, kind, x))
            if got_invalid == (not ev):
                continue
            key = classify(e, kind, x, ev).replace("valid:", "cli:", 1)
            ctx.violation(key, "<valid>%s</valid>, call f(%s) [%s/%s]: reference %s, cppcheck %s invalidFunctionArg" % (
                e, klit(kind, x), b[1], b[2], "valid" if ev else "invalid", "reports" if got_invalid else "does not report"),
                {"part": "cli", "exprs": [e], "kind": kind, "arg": klit(kind, x), "form": b[1], "ext": b[2]})
    ctx.sample({"part": "cli", "cfg": '<function name="f0"><arg nr="1"><valid>0,2:10</valid></arg></function>',
                "source": "void t1(void){ f0(1); }", "expected": "invalidFunctionArg"}, maxn=8)


# <not-null/> and <not-bool/>
NN_ARGS = [("0", True), ("NULL", True), ("(char*)0", True), ("p", True), ("&x", False), ('"s"', False), ("q", False)]
NB_ARGS = [("a==b", True), ("!a", True), ("true", True), ("false", True), ("1==2", True), ("!1", True),
           ("1", False), ("0", False), ("a", False)]


def restr_program():
    cfg = ['<?xml version="1.0"?>', "<def>"]
    for nr in (1, 2, 3):
        for fn, tag in (("nn", "not-null"), ("nb", "not-bool")):       # all three arguments are declared (argument count must match)
            cfg.append('<function name="%s%d">%s</function>' % (fn, nr, "".join(
                '<arg nr="%d">%s</arg>' % (k, "<%s/>" % tag if k == nr else "") for k in (1, 2, 3))))
    cfg.append('<function name="free3"><arg nr="1"/><arg nr="2"/><arg nr="3"/></function>')
    cfg.append("</def>")
    src = ["#define NULL ((void*)0)"]
    exp = {}
    def call(fn, nr, a, filler):
        args = [filler, filler, filler]
        args[nr - 1] = a
        return "%s(%s)" % (fn, ", ".join(args))
    for nr in (1, 2, 3):
        for a, bad in NN_ARGS:
            for fn, want in (("nn%d" % nr, "nullPointer" if bad else None), ("free3", None)):
                ln = len(src) + 1
                src.append("void t%d(char *q, char *ok){ char *p = 0; int x = 0; %s; }" % (ln, call(fn, nr, a, "ok")))
                exp[ln] = ("not-null", fn, nr, a, want, ("nullPointer",))
        for a, bad in NB_ARGS:
            for fn, want in (("nb%d" % nr, "invalidFunctionArgBool" if bad else None), ("free3", None)):
                ln = len(src) + 1
                src.append("void t%d(int a, int b, int ok){ %s; }" % (ln, call(fn, nr, a, "ok")))
                exp[ln] = ("not-bool", fn, nr, a, want, ("invalidFunctionArgBool",))
    return "\n".join(cfg) + "\n", "\n".join(src) + "\n", exp


def part_restr(ctx):
    cfg, src, exp = restr_program()
    for ext in ("c", "cpp"):
        with run.WS({"r.cfg": cfg, "t." + ext: src}) as ws:
            r = cppcheck_retry(["-q", "--library=r.cfg", "--template={line}:{id}", "t." + ext], ws.dir)
        ctx.bump("cli_runs")
        rep = {}
        for ln, fid in RE_F.findall(r.text_err()):
            rep.setdefault(int(ln), set()).add(fid)
        if r.rc != 0:
            ctx.violation("restr:exit-status", "exit %s" % r.rc, {"part": "restr", "ext": ext, "stderr": r.text_err()[-1000:]})
            continue
        for ln, (what, fn, nr, a, want, ids) in exp.items():
            ctx.count()
            got = sorted(i for i in rep.get(ln, ()) if i in ids)
            if want:
                ctx.distinct("restr|%s|%s|%d|%s" % (ext, what, nr, a))
            if got != ([want] if want else []):
                ctx.violation("restr:%s:%s:%s" % (what, a, "missing" if want else "spurious"),
                              "%s argument nr %d of %s = %s (.%s): expected %s, reported %s" % (what, nr, fn, a, ext, want, got),
                              {"part": "restr", "ext": ext, "line": ln, "source_line": src.splitlines()[ln - 1]})
    ctx.sample({"part": "restr", "source": src.splitlines()[1], "expected": "nullPointer"}, maxn=8)


# ------------------------------------------------------------------------------------------------ (c) load
def el_path(root, parents, e):
    p = [e.tag]
    while e in parents:
        e = parents[e]
        p.append(e.tag)
    return "/".join(reversed(p))


ATTR_VALUES = (("", "empty-at"), ("x", "x-at"), ("-1", "neg-at"), ("100000", "large-at"), ("99999999999999999999", "big-at"))


def edits(root):
    """All single edits of a document as (name, class, kind, element index, attribute, value)."""
    parents = {c: p for p in root.iter() for c in p}
    out = []
    for i, e in enumerate(root.iter()):
        path = el_path(root, parents, e)
        if i > 0:
            out.append(("del-el:%d" % i, "del-el:" + path, "del-el", i, None, None))
            out.append(("dup-el:%d" % i, "dup-el:" + path, "dup-el", i, None, None))
        out.append(("ren-el:%d" % i, "ren-el:" + path, "ren-el", i, None, None))
        if (e.text or "").strip():
            out.append(("empty-text:%d" % i, "empty-text:" + path, "text", i, None, ""))
            out.append(("x-text:%d" % i, "x-text:" + path, "text", i, None, "x"))
        elif len(e) == 0:
            out.append(("add-text:%d" % i, "add-text:" + path, "text", i, None, "x"))
        for a in e.attrib:
            out.append(("del-at:%d@%s" % (i, a), "del-at:%s@%s" % (path, a), "del-at", i, a, None))
            out.append(("ren-at:%d@%s" % (i, a), "ren-at:%s@%s" % (path, a), "ren-at", i, a, None))
            for val, nm in ATTR_VALUES:
                out.append(("%s:%d@%s" % (nm, i, a), "%s:%s@%s" % (nm, path, a), "set-at", i, a, val))
    return out


def apply_edits(root, eds):
    """Apply edits (indices refer to the unedited document) to a copy and serialise it."""
    r = copy.deepcopy(root)
    els = list(r.iter())
    par = {c: p for p in r.iter() for c in p}
    for _, _, kind, i, a, val in eds:
        e = els[i]
        p = par.get(e)
        if kind == "del-el":
            if p is not None and e in list(p):
                p.remove(e)
        elif kind == "dup-el":
            if p is not None and e in list(p):
                p.insert(list(p).index(e) + 1, copy.deepcopy(e))
        elif kind == "ren-el":
            e.tag = "x"
        elif kind == "text":
            e.text = val
        elif kind == "del-at":
            e.attrib.pop(a, None)
        elif kind == "ren-at":
            e.attrib = {("x" if k == a else k): v for k, v in e.attrib.items()}
        elif kind == "set-at":
            if a in e.attrib:
                e.attrib[a] = val
    return b'<?xml version="1.0"?>\n' + ET.tostring(r) + b"\n"


def mutants(xml):
    """Complete single-edit neighbourhood of an XML document: (name, class, bytes)."""
    root = ET.fromstring(xml)
    for ed in edits(root):
        yield ed[0], ed[1], apply_edits(root, [ed])


PAIR_KINDS = ("del-el", "ren-el", "empty-text", "del-at", "empty-at")


def mutant_pairs(xml):
    """Two-edit neighbourhood (thorough): all pairs of edits of the kinds PAIR_KINDS on different nodes/attributes."""
    root = ET.fromstring(xml)
    eds = [e for e in edits(root) if e[1].split(":", 1)[0] in PAIR_KINDS]
    for x, y in itertools.combinations(eds, 2):
        if x[3] == y[3] and x[4] == y[4]:
            continue
        yield x[0] + "+" + y[0], x[1] + "+" + y[1], apply_edits(root, [x, y])


def run_load(exe, recs):
    """Feed (name, cls, bytes) records to the fork-server harness.
    -> list of (name, cls, xml, status) with status = ('ok', code, reason) | ('exception', what) | ('died', rc, stderr)."""
    data = b"".join(b"%s %d\n" % (n.encode(), len(x)) + x + b"\n" for n, _, x in recs)
    p = subprocess.run([exe, "load"], input=data, stdout=subprocess.PIPE, stderr=subprocess.PIPE, env=HENV)
    by = {}
    for l in p.stdout.decode("utf-8", "replace").splitlines():
        t = l.split(" ", 4)
        if len(t) < 4:
            continue
        if t[0] == "L":
            by[t[1]] = ("ok", t[2] + ":" + t[3], t[4] if len(t) > 4 else "")
        elif t[0] == "X":
            by[t[1]] = ("exception", l.split(" ", 3)[3])
        elif t[0] == "D":
            by[t[1]] = ("died", int(t[2]), l.split(" ", 3)[3].replace("\\n", "\n"))
    return [(n, c, x, by.get(n, ("died", p.returncode, "no result line; harness stderr: " + p.stderr.decode("utf-8", "replace")[-1500:])))
            for n, c, x in recs]


def confirm_cli(xml, both=False):
    """Does the real command line tool show the same? -> dict variant -> (rc, tail of output).  The asan binary is
    only consulted when the plain one does not already die."""
    res = {}
    with run.WS({"m.cfg": xml, "e.c": "void f(void){}\n"}) as ws:
        for v in ("plain", "asan"):
            r = cppcheck_retry(["-q", "--library=m.cfg", "e.c"], ws.dir, variant=v, env={"ASAN_OPTIONS": "detect_leaks=0"}, timeout=300)
            res[v] = (r.rc, (r.text_out() + r.text_err())[-600:])
            if crashed(*res[v]) and not both:
                break
    return res


def crashed(rc, text):
    return rc < 0 or rc in (134, 139) or "Sanitizer" in text or "runtime error:" in text or "terminate called" in text


def load_key(cls):
    """Input class of a crashing mutant: edit group + element path (+ attribute)."""
    kind, where = cls.split(":", 1)
    group = {"empty-at": "non-integer-attribute", "x-at": "non-integer-attribute", "big-at": "non-integer-attribute",
             "neg-at": "negative-attribute", "large-at": "large-attribute"}.get(kind, kind)
    return "load-crash:%s:%s" % (group, where)


def part_load(ctx, exe_asan, tier):
    # vacuity guard: the seed holds every element and attribute name of the schema and loads without error
    rng = open(os.path.join(REPO, "cfg", "cppcheck-cfg.rng")).read()
    root = ET.fromstring(SEED)
    miss_e = set(re.findall(r'<element name="([^"]*)"', rng)) - {e.tag for e in root.iter()}
    miss_a = set(re.findall(r'<attribute name="([^"]*)"', rng)) - {a for e in root.iter() for a in e.attrib}
    ctx.cov["seed_missing_schema_elements"] = sorted(miss_e)
    ctx.cov["seed_missing_schema_attributes"] = sorted(miss_a)
    recs = [("seed", "seed", SEED.encode())] + list(mutants(SEED))
    nchunk = max(1, min(NCPU, 8))
    per = (len(recs) + nchunk - 1) // nchunk
    groups = [recs[i:i + per] for i in range(0, len(recs), per)]
    outcomes = {}
    crash_classes = set()

    def judge(res, pair=False):
        for n, c, x, st in res:
            ctx.count()
            ctx.bump("load_mutant_pairs" if pair else "load_mutants")
            if st[0] == "ok":
                outcomes[st[1]] = outcomes.get(st[1], 0) + 1
                if n == "seed" and st[1] != "ok:0":
                    ctx.violation("load:seed-not-accepted", "the seed configuration is refused: %s" % (st,), {"part": "load", "name": n, "xml": x.decode()})
                if st[1] not in ("ok:0",):
                    ctx.distinct("load|" + c)
                continue
            conf = confirm_cli(x)
            ctx.distinct("load|" + c)
            what = "cfg mutant %s (%s): %s" % (n, c, "exception leaves Library::load: " + st[1] if st[0] == "exception" else
                                               "in-process load died, status %s: %s" % (st[1], st[2][-300:].strip().splitlines()[-1:] or ""))
            if st[0] == "exception" and not any(crashed(*conf[v]) for v in conf):
                # an exception that the command line tool turns into an error message is an error report, not a crash
                ctx.bump("load_exception_handled_by_cli")
                continue
            crash_classes.add(c)
            key = "+".join(load_key(k) for k in c.split("+")) if pair else load_key(c)
            ctx.violation(key, what + " | CLI: " + "; ".join("%s rc=%s" % (v, conf[v][0]) for v in conf),
                          {"part": "load", "name": n, "class": c, "xml": x.decode(), "inprocess": st, "cli": conf})

    for res in pmap(lambda g: run_load(exe_asan, g), groups):
        judge(res)
    if tier == "thorough":
        # two-edit neighbourhood; pairs that contain an edit which crashes on its own are not new information
        single_bad = set(crash_classes)

        def pair_chunks(size=1500):
            buf = []
            for n, c, x in mutant_pairs(SEED):
                if any(k in single_bad for k in c.split("+")):
                    continue
                buf.append((n, c, x))
                if len(buf) == size:
                    yield buf
                    buf = []
            if buf:
                yield buf

        def work(g):
            if ctx.time_left() < 700:          # keep time for the other parts
                ctx.capped = True
                return None
            return run_load(exe_asan, g)
        for res in pmap(work, pair_chunks(), jobs=nchunk):
            if res is not None:
                judge(res, pair=True)
    ctx.cov["load_outcomes"] = outcomes
    # shipped configurations through Library::load(exename, path)
    files = sorted(glob.glob(os.path.join(REPO, "cfg", "*.cfg")))
    groups = [files[i::nchunk] for i in range(nchunk)]

    def loadfiles(fs):
        res = []
        todo = list(fs)
        while todo:
            p = subprocess.run([exe_asan, "loadfile"] + todo, stdout=subprocess.PIPE, stderr=subprocess.PIPE, env=HENV)
            k = 0
            for l in p.stdout.decode().splitlines():
                t = l.split(" ", 4)
                res.append((t[1], t[0], t[3] if len(t) > 3 else "", ""))
                k += 1
            if k < len(todo):
                res.append((todo[k], "died", str(p.returncode), p.stderr.decode("utf-8", "replace")[-2000:]))
                k += 1
            todo = todo[k:]
        return res
    for res in pmap(loadfiles, [g for g in groups if g]):
        for f, st, code, err in res:
            ctx.count()
            ctx.bump("load_shipped_cfg")
            ctx.distinct("shipped|" + os.path.basename(f))
            if st != "L":
                ctx.violation("load-crash:shipped:" + os.path.basename(f), "loading %s: %s %s %s" % (f, st, code, err[-300:]),
                              {"part": "loadfile", "file": f, "stderr": err})
            elif code != "0":
                ctx.bump("load_shipped_cfg_error_alone")     # e.g. boost.cfg needs std.cfg's containers
    ctx.sample({"part": "load", "mutant": "del-at:def/function/arg@nr", "expected": "ok or error code"}, maxn=8)


# ------------------------------------------------------------------------------------------------ main
def replay_case(a):
    part = a.get("part")
    if part == "seam":
        exe = harness("plain")
        res, rc, err = run_valid(exe, [a["expr"]])
        got = res.get(a["expr"])
        print("<valid>%s</valid>  harness exit %s %s" % (a["expr"], rc, err))
        for i, (kind, x) in enumerate(ARGS):
            ev = ref_valid(a["expr"], x)
            gv = None if got is None else bool(got & (1 << (NARG - 1 - i)))
            if gv != ev:
                print("  %s argument %-6s expected %-7s observed %s" % (kind, klit(kind, x), "valid" if ev else "invalid",
                                                                       "refused" if gv is None else "valid" if gv else "invalid"))
        a = {"part": "cli", "exprs": [a["expr"]], "form": "const", "ext": "c"}
        part = "cli"
    if part == "cli":
        where, rep, r = run_cli_batch(a["exprs"], a.get("form", "const"), a.get("ext", "c"))
        print("exit", r.rc)
        for ln, (e, kind, x) in sorted(where.items()):
            ev = ref_valid(e, x)
            gi = "invalidFunctionArg" in rep.get(ln, ())
            print("%s <valid>%s</valid> f(%s): expected %s, observed %s" % (
                "MISMATCH" if gi == ev else "ok      ", e, klit(kind, x), "no finding" if ev else "invalidFunctionArg",
                "invalidFunctionArg" if gi else "no finding"))
    elif part == "restr":
        cfg, src, exp = restr_program()
        ln = a["line"]
        one = src.splitlines()[0] + "\n" + "\n" * (ln - 2) + src.splitlines()[ln - 1] + "\n"
        with run.WS({"r.cfg": cfg, "t." + a["ext"]: one}) as ws:
            r = run.cppcheck(["-q", "--library=r.cfg", "--template={line}:{id}:{message}", "t." + a["ext"]], ws.dir)
        print(src.splitlines()[ln - 1])
        print("expected:", exp[ln][4], "\nobserved:", r.text_err() or "(nothing)")
    elif part == "load":
        exe = harness("asan")
        res = run_load(exe, [(a["name"], a.get("class", ""), a["xml"].encode())])
        print(a["xml"])
        print("expected: 'ok <code>' (success or error code)\nobserved in-process (asan):", res[0][3])
        for v, (rc, txt) in confirm_cli(a["xml"].encode(), both=True).items():
            print("cppcheck[%s] --library=m.cfg e.c -> exit %s %s" % (v, rc, txt.strip()[-400:]))
    elif part == "loadfile":
        exe = harness("asan")
        p = subprocess.run([exe, "loadfile", a["file"]], stdout=subprocess.PIPE, stderr=subprocess.PIPE, env=HENV)
        print(p.returncode, p.stdout.decode(), p.stderr.decode()[-2000:])
    return 0


def main(tier, replay=None):
    ctx = Ctx("C30", tier, "model_checking", 600 if tier == "quick" else 1700, replay)
    build.build("plain")
    build.build("asan")
    if replay:
        return replay_case(replay["artefact"])
    exe_plain = harness("plain")
    exe_asan = harness("asan")
    parts = os.environ.get("VERIF_C30_PARTS", "load,restr,cli,seam").split(",")     # development aid; default = all
    if "load" in parts:
        part_load(ctx, exe_asan, tier)
    if "restr" in parts:
        part_restr(ctx)
    if "cli" in parts:
        part_cli(ctx, tier)
    if "seam" in parts:
        part_seam(ctx, exe_plain, tier)
    n_items = len(items())
    ctx.cov.update({"states": len(ctx._distinct), "transitions": ctx.evaluations,
                    "traces_validated_against_impl": ctx.evaluations,
                    "bounds": BOUNDS, "bounds_of_3_item_level": BOUNDS_Q3 if tier == "quick" else BOUNDS, "item_forms": ["v", "a:b (a<=b)", ":b", "a:"], "items": n_items, "max_items_per_expression": 3,
                    "int_arguments": "-4..12", "float_arguments": "-4.0..12.0 step 0.25"})
    ctx.assumptions = ["reference = man/reference-cfg-format.md 'Value range': closed ranges, list = union of items",
                       "reversed ranges a:b with a>b and the '!v' form are outside the stated quantifier and are not enumerated",
                       "in-process seam uses the objects of the plain variant built from /repo's working tree; load part uses the asan variant's objects"]
    q3 = "the same items" if tier != "quick" else "the %d items over bounds %s" % (len(items(BOUNDS_Q3)), ",".join(BOUNDS_Q3))
    rule = ("(a) every <valid> expression with 1..2 items drawn from %d items (4 item forms over bounds %s) and every 3-item expression over %s "
            "x every integer argument -4..12 and float argument on the 0.25 grid, Library::isIntArgValid/isFloatArgValid vs reference; "
            "(b) every 1- and 2-item expression x %d constant arguments through the real binary (200 functions per run), <not-null/> x %d and "
            "<not-bool/> x %d argument forms x argument position 1..3 x {.c,.cpp} with an unrestricted control function; (c) every single-edit "
            "mutant of the seed cfg (delete/duplicate/rename element, empty/replace/add text, delete/rename attribute, attribute value in "
            "{'', x, -1, 100000, 10^20}) and every shipped cfg loaded with ASan+UBSan objects. distinct = expression (seam) / (expression, "
            "argument) (cli) / mutant class; nontrivial = expression with at least one invalid argument, call expected to be reported, "
            "mutant not loading as plain OK" % (n_items, ",".join(BOUNDS), q3, len(CLI_K), len(NN_ARGS), len(NB_ARGS)))
    return ctx.finish(rule=rule)
