"""C13 -- any input is handled without crash, memory error or hang.

In-process enumeration (native/garbage_enum.cpp, linked with the ASan+UBSan objects, -fno-sanitize-recover): every input is a
complete analysis the way the client does it for one file with -j1 (CppCheck::checkBuffer + both whole-program stages, Settings
made by the real CmdLineParser, std.cfg loaded).  Enumerated, simplest first:
  (1) ALL strings of <= L tokens over a 24-token alphabet in 3 contexts (file scope, function body, class body), C and C++;
  (2) ALL byte strings of length <= 1 (256 values), length 2 with one byte arbitrary and one of a 20-byte lexer alphabet
      (thorough: both arbitrary), length <= 3 (thorough 4) over the 20-byte alphabet;
  (3) the complete single-edit neighbourhood (delete / duplicate token i, swap i,i+1, delete / flip high bit of every byte;
      thorough: replace token i by each alphabet token) of every file in test/cli/fuzz-crash, fuzz-crash_c, fuzz-timeout and samples/.
Option sets: default; --enable=all --inconclusive; + --check-level=exhaustive; + -Dx -Da.
Oracle: the process survives (no signal, no sanitizer report, no exception leaving the library) and every input returns
within the CPU-time watchdog (quick 10 s, thorough 20 s; re-run alone with 5x that before it is called a hang; fuzz-timeout
files: crash only).
"""
import json, os, re, subprocess, time
from vlib import build
from vlib.core import Ctx

ROOT = os.path.dirname(os.path.dirname(os.path.abspath(__file__)))
REPO = build.REPO
SRC = os.path.join(ROOT, "native", "garbage_enum.cpp")
FRAME = re.compile(r"^\s*#\d+ 0x[0-9a-f]+ in (.+?) (/\S+?):(\d+)", re.M)
SUMMARY = re.compile(r"^SUMMARY: (\w+): ([\w-]+)", re.M)
UBSAN = re.compile(r"^(/\S+?):(\d+):(\d+): runtime error: (.*)$", re.M)


def build_harness():
    build.build("asan")
    bdir = os.path.join(build.BUILD, "asan")
    exe = os.path.join(build.BUILD, "harness", "garbage_enum.asan")
    os.makedirs(os.path.dirname(exe), exist_ok=True)
    core = os.path.join(bdir, "lib", "CMakeFiles", "cppcheck-core.dir")
    objs = []
    for d, _, fs in os.walk(core):
        objs += [os.path.join(d, f) for f in fs if f.endswith(".o")]
    objs.sort()
    libs = [os.path.join(bdir, "lib", l) for l in ("libcli.a", "libfrontend.a", "libtinyxml2.a", "libsimplecpp.a")]
    deps = [SRC] + objs + libs
    if os.path.exists(exe) and all(os.path.getmtime(d) <= os.path.getmtime(exe) for d in deps):
        return exe
    # same flags as the asan variant (vlib/build.py)
    flags = build.VARIANTS["asan"][2].split()
    cmd = ["clang++", "-std=c++11", "-D" + build.GUARD, "-DNDEBUG", "-w"] + flags + [
        "-I" + os.path.join(bdir, "lib"), "-I" + REPO + "/lib", "-I" + REPO + "/cli", "-I" + REPO + "/externals/simplecpp",
        "-I" + REPO + "/externals/tinyxml2", "-I" + REPO + "/externals/picojson", SRC] + objs + libs + ["-o", exe + ".tmp"]
    p = subprocess.run(cmd, stdout=subprocess.PIPE, stderr=subprocess.STDOUT)
    if p.returncode != 0:
        raise SystemExit("BUILD-ERROR: garbage harness: " + p.stdout.decode("utf-8", "replace")[-3000:])
    os.replace(exe + ".tmp", exe)
    return exe


def top_function(stderr_text):
    """First stack frame inside cppcheck's own sources (lib/, cli/, externals/), without arguments."""
    for m in FRAME.finditer(stderr_text):
        fn, path = m.group(1), m.group(2)
        if "/repo/" in path or path.startswith(REPO):
            fn = re.sub(r"\(.*$", "", fn)
            fn = re.sub(r"<.*>", "<>", fn)
            return fn.strip(), os.path.relpath(path, REPO)
    return None, None


DRIVERS = ("CppCheck::checkInternal", "CppCheck::checkBuffer", "CppCheck::checkNormalTokens", "Tokenizer::simplifyTokens1",
           "Tokenizer::simplifyTokenList1", "Tokenizer::createSymbolDatabase", "SymbolDatabase::SymbolDatabase",
           "ValueFlow::setValues", "TemplateSimplifier::simplifyTemplates", "Timer::run", "::runChecks", "analyseWholeProgram",
           "operator()")


GDBFRAME = re.compile(r"^#\d+\s+(?:0x[0-9a-f]+ in )?(.*) at (/\S+):(\d+)\s*$", re.M)


def probe_phase(exe, rec, cpu_s=4.0):
    """Where does a hanging input hang?  Replay it in the harness, wait until it has used cpu_s CPU seconds, take a
    backtrace with gdb from outside (nothing runs inside the hanging process) and reduce it to the phase function."""
    cmd = [exe, "--repo", REPO, "--exe", build.cppcheck("asan"), "--replay-hex", rec["input_hex"], "--lang", rec["lang"],
           "--optset", str(rec["optset"]), "--limit", "100000"]
    p = subprocess.Popen(cmd, stdout=subprocess.PIPE, stderr=subprocess.DEVNULL)
    try:
        tick = os.sysconf("SC_CLK_TCK")

        def cpu():
            f = open("/proc/%d/stat" % p.pid).read().rsplit(")", 1)[1].split()
            return (int(f[11]) + int(f[12])) / tick
        while True:                                   # the harness says "replaying ..." right before the analysis starts
            line = p.stdout.readline()
            if not line or line.startswith(b"replaying"):
                break
        t0 = time.time()
        try:
            c0 = cpu()
            while p.poll() is None and time.time() - t0 < 900 and cpu() - c0 < cpu_s:
                time.sleep(0.5)
        except (OSError, IndexError, ValueError):
            pass
        if p.poll() is not None:
            return "returned-when-replayed"
        try:
            g = subprocess.run(["gdb", "-p", str(p.pid), "-batch", "-ex", "bt 60"], stdout=subprocess.PIPE, stderr=subprocess.DEVNULL,
                               timeout=300)
        except (OSError, subprocess.TimeoutExpired):
            return "unknown"
        out = g.stdout.decode("utf-8", "replace")
    finally:
        p.kill()
        p.wait()
    frames = []
    for m in GDBFRAME.finditer(out):
        fn, path = m.group(1), m.group(2)
        cut = fn.rfind(" (")
        if cut > 0:
            fn = fn[:cut]
        fn = re.sub(r"\[abi:\w+\]", "", fn)
        fn = re.sub(r"\(.*$", "", re.sub(r"<.*>", "<>", fn)).strip()
        frames.append((fn, path))
    return _phase(frames)


def _phase(frames):
    frames = [f for f in frames if "/repo/" in f[1] or f[1].startswith(REPO)]
    phase = None
    for i in range(len(frames) - 1, -1, -1):          # outermost -> innermost
        if any(d in frames[i][0] for d in DRIVERS):
            phase = None
            continue
        if phase is None:
            phase = frames[i][0]
    return phase or "unknown"


def crash_key(rec):
    """class key: kind of death : top cppcheck function : input family"""
    err = rec.get("stderr", "")
    fam = rec["family"]
    if rec["type"] == "exception":
        what = re.sub(r"[^A-Za-z0-9_:. -]", "", rec.get("exception", ""))[:60]
        return "exception:%s:%s" % (what, fam)
    if rec["type"] == "hang":
        return "hang:%s:%s" % (rec.get("phase", "unknown"), fam)
    kind = "signal" if rec["status"].startswith("signal") else "abort"
    m = SUMMARY.search(err)
    if m:
        kind = m.group(2)
    elif UBSAN.search(err):
        kind = "undefined-behavior"
    fn, _ = top_function(err)
    if fn is None:
        m = UBSAN.search(err)
        fn = os.path.relpath(m.group(1), REPO) if m else "unknown"
    return "crash:%s:%s:%s" % (kind, fn, fam)


def run_harness(exe, tier, jobs, deadline_s, extra=()):
    cmd = [exe, "--tier", tier, "--jobs", str(jobs), "--deadline", str(int(deadline_s)), "--repo", REPO,
           "--exe", build.cppcheck("asan")] + list(extra)
    env = dict(os.environ)
    env["LC_ALL"] = "C"
    env.pop("ASAN_OPTIONS", None)
    env.pop("UBSAN_OPTIONS", None)
    p = subprocess.run(cmd, stdout=subprocess.PIPE, stderr=subprocess.PIPE, env=env)
    recs, stats = [], None
    for line in p.stdout.decode("utf-8", "replace").splitlines():
        try:
            r = json.loads(line)
        except ValueError:
            continue
        if r.get("type") == "stats":
            stats = r
        else:
            recs.append(r)
    return p.returncode, recs, stats, p.stderr.decode("utf-8", "replace")


def replay_case(exe, a):
    cmd = [exe, "--repo", REPO, "--exe", build.cppcheck("asan"), "--replay-hex", a["input_hex"], "--lang", a["lang"],
           "--optset", str(a["optset"])]
    print("expected: the analysis returns normally (findings only); recorded: %s %s" % (a.get("type"), a.get("status")))
    print("input (%s, options %s): %r" % (a["lang"], a.get("options"), a.get("input_text")))
    print("observed (in-process, ASan+UBSan):", flush=True)
    rc = subprocess.call(cmd)
    print("harness exit status:", rc)
    # the same input through the stock sanitizer build of the command line client
    from vlib import run
    opts = {0: [], 1: ["--enable=all", "--inconclusive"], 2: ["--enable=all", "--inconclusive", "--check-level=exhaustive"],
            3: ["--enable=all", "--inconclusive", "-Dx", "-Da"]}[a["optset"]]
    name = "test.cpp" if a["lang"] == "cpp" else "test.c"
    with run.WS({name: bytes.fromhex(a["input_hex"])}) as ws:
        r = run.cppcheck(["-q"] + opts + [name], ws.dir, variant="asan", timeout=300)
    print("stock build/asan/bin/cppcheck: rc=%s timed_out=%s" % (r.rc, r.timed_out))
    print(r.text_err()[-3000:])
    return 0


def main(tier, replay=None):
    ctx = Ctx("C13", tier, "model_checking", 235 if tier == "quick" else 1800, replay)
    exe = build_harness()
    if replay:
        return replay_case(exe, replay["artefact"])
    jobs = min(16, os.cpu_count() or 4)
    deadline = max(20, ctx.time_left() - (65 if tier == "quick" else 200))
    # quick: 10 CPU-seconds per input (50 s alone before 'hang'); thorough: 20 s / 100 s
    extra = ["--limit", "10" if tier == "quick" else "20"]
    if os.environ.get("VERIF_C13_RANGE"):            # debugging aid: only a slice of the index space, "from:to"
        a, b = os.environ["VERIF_C13_RANGE"].split(":")
        extra += ["--from", a, "--to", b]
    rc, recs, stats, err = run_harness(exe, tier, jobs, deadline, extra)
    if rc != 0 or stats is None:
        ctx.violation("harness:failed", "garbage harness failed rc=%s: %s" % (rc, err[-1500:]), {"stderr": err[-4000:]})
        return ctx.finish(rule="harness failed")
    for r in recs:
        t = r.get("type")
        if t == "timeout-tolerated":
            ctx.bump("timeouts_tolerated_fuzz_timeout_corpus")
            continue
        if t == "timeout-inconclusive":       # exceeded the per-input CPU limit, then starved of CPU when re-run alone
            ctx.bump("watchdog_inconclusive_machine_too_busy")
            continue
        if t not in ("crash", "exception", "hang"):
            continue
        if t == "hang":
            r["phase"] = probe_phase(exe, r)
        key = crash_key(r)
        fn, path = top_function(r.get("stderr", ""))
        what = "%s on %s input (%s, %s): %s %s; input %r" % (t, r["kind"], r["lang"], r["options"], r["status"],
                                                            (r.get("exception") or (fn or "")), r["input_text"][:120])
        art = {k: r[k] for k in ("type", "index", "family", "kind", "descr", "lang", "optset", "options", "input_hex", "input_text",
                                 "status", "exception", "reproduced_alone", "block_from")}
        art["stderr"] = r.get("stderr", "")[:6000]
        art["phase"] = r.get("phase")
        art["tier"] = tier
        if r.get("reproduced_alone") == 0:
            key += ":only-after-earlier-inputs"
        ctx.violation(key, what, art)
    fams = ("tok", "bytes", "corpus")
    done = sum(stats[f]["done"] for f in fams)
    ctx.count(done)
    acc = sum(stats[f]["accepted"] for f in fams)
    for f in fams:
        for k, v in stats[f].items():
            ctx.cov["%s_%s" % (f, k)] = v
    ctx.cov.update({"inputs_planned": stats["total_planned"], "inputs_done": done, "inputs_accepted_by_tokenizer": acc,
                    "inputs_rejected_as_finding": sum(stats[f]["rejected"] for f in fams),
                    "inputs_with_other_findings": sum(stats[f]["with_findings"] for f in fams),
                    "by_optset": dict(zip(["default", "all+inconclusive", "all+inconclusive+exhaustive", "all+inconclusive-Dx-Da"],
                                          stats["by_optset"])),
                    "by_lang": stats["by_lang"], "corpus_files": stats["corpus_files"], "harness_wall_s": stats["wall_s"],
                    "children_cpu_s": stats["children_cpu_s"], "ms_cpu_per_input": round(1000.0 * stats["children_cpu_s"] / max(1, done), 2),
                    "slow_but_finished_within_5x": stats["slow_but_finished"], "jobs": stats["jobs"],
                    "states": done, "transitions": done, "traces_validated_against_impl": done})
    ctx._distinct.update("accepted-%d" % i for i in range(acc))
    if stats["capped"] or os.environ.get("VERIF_C13_RANGE"):
        ctx.capped = True
    # written-out samples of this run: the first accepted-looking inputs of two families
    for idx in (2300, 6000):
        if idx < stats["dispatched_to"]:
            p = subprocess.run([exe, "--tier", tier, "--repo", REPO, "--show-index", str(idx)], stdout=subprocess.PIPE)
            try:
                ctx.sample(json.loads(p.stdout.decode("utf-8", "replace").splitlines()[-1]))
            except (ValueError, IndexError):
                pass
    ctx.assumptions = ["one analysis = CppCheck::checkBuffer + analyseWholeProgram() + analyseWholeProgram(buildDir='') on Settings "
                       "made by CmdLineParser::parseFromArgs and std.cfg; the command line client itself is only run for replays",
                       "watchdog counts CPU time (ITIMER_PROF, wall backstop 6x) so machine load cannot produce a hang verdict",
                       "ASan quarantine 64 MB; leak detection off (leaks are not in the statement)"]
    return ctx.finish(
        rule="index space by size class: token strings len<=1 x 4 option sets x {C,C++} x 3 contexts, single bytes, byte-alphabet "
             "strings len<=2, corpus files x 4 option sets; token pairs, token-level single-edit neighbourhood of the corpus; byte "
             "strings len 2..3; byte-level edits; token triples (thorough: all byte pairs, replace-edits, other option sets, byte20 "
             "len 4, token strings len 4..5); one fork per block of 500 consecutive inputs; distinct/non-trivial = inputs the tokenizer "
             "accepted (no syntaxError/internalError/unknownMacro/preprocessor error), the rest is counted as rejected",
        extra={"alphabet_tokens": 24, "alphabet_bytes": 20, "dispatched_to_index": stats["dispatched_to"]})
